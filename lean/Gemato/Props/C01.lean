import Gemato.Model.VerifyDir
import Gemato.Proofs.Path
/-
  C01 — Recursive verification accepts exactly the trees that match their
  Manifests. Theorems about the per-object check, the compatibility rule, the
  component-wise IGNORE match and the per-directory step of the walk.
-/
namespace Gemato.C01
open Gemato.L1

/-- every listed digest is supplied, supported and equal to the file's -/
def DigestsEqual (m : FileMeta) (cks : List (Str × Str)) : Prop :=
  ∀ kv ∈ cks, (m.digests.find? (·.1 == kv.1)).map (·.2) = some kv.2

/-- the entry's hash names are all supported and the scenario supplies the file's digests for them -/
def DigestsKnown (m : FileMeta) (cks : List (Str × Str)) : Prop :=
  (∀ kv ∈ cks, (Hash.hashlibName? kv.1).isSome) ∧ (∀ kv ∈ cks, (m.digests.find? (·.1 == kv.1)).isSome)

theorem digestsMatch_known (m : FileMeta) (cks : List (Str × Str)) (h : DigestsKnown m cks) :
    ∃ b, digestsMatch m cks = .ok b ∧ (b = true ↔ DigestsEqual m cks) := by
  obtain ⟨h1, h2⟩ := h
  have e1 : cks.any (fun kv => (Hash.hashlibName? kv.1).isNone) = false := by
    simp only [List.any_eq_false]
    intro kv hkv; have := h1 kv hkv; cases hx : Hash.hashlibName? kv.1 <;> simp_all
  have e2 : cks.any (fun kv => (m.digests.find? (·.1 == kv.1)).isNone) = false := by
    simp only [List.any_eq_false]
    intro kv hkv; have := h2 kv hkv; cases hx : m.digests.find? (·.1 == kv.1) <;> simp_all
  refine ⟨cks.all fun kv => (m.digests.find? (·.1 == kv.1)).map (·.2) == some kv.2, ?_, ?_⟩
  · simp [digestsMatch, e1, e2]
  · simp [DigestsEqual, List.all_eq_true]

/-- an IGNORE entry always verifies -/
theorem C01_ignore_always_ok (o : Obj) (p q : Str) (d : Option Nat) (lm : Option Int) :
    verifyObj o p (some (.ignore q)) d lm = .ok true := rfl

/-- without an entry, success means: nothing is there (a stray object of any kind is a mismatch) -/
theorem C01_no_entry_ok_iff_absent (o : Obj) (p : Str) (d : Option Nat) (lm : Option Int) :
    verifyObj o p none d lm = .ok true ↔ (match o with | .absent => True | _ => False) := by
  cases o <;> simp [verifyObj]

/-- with a file entry, success is possible only for a regular file (on the expected device) -/
theorem C01_entry_ok_regular (o : Obj) (p : Str) (t : FTag) (q : Str) (esize : Nat) (cks : List (Str × Str))
    (d : Option Nat) (lm : Option Int) (h : verifyObj o p (some (.file t q esize cks)) d lm = .ok true) :
    ∃ m, o = .file m ∧ devBad d m.dev = false ∧ fileCheck m esize cks lm = .ok true := by
  cases o with
  | absent => simp [verifyObj] at h
  | notdir => simp [verifyObj] at h
  | fault k => simp [verifyObj] at h
  | dir dv i ks => simp only [verifyObj] at h; split at h <;> simp at h
  | special dv => simp only [verifyObj] at h; split at h <;> simp at h
  | file m =>
    simp only [verifyObj] at h
    split at h
    · cases h
    · rename_i hd; exact ⟨m, rfl, by simpa using hd, h⟩

/-- **per-file rule.** On a regular file, success means: the apparent size is
    unchanged (or 0), and the file either may be skipped under the mtime rule
    (not newer than the last verification, non-zero apparent size) or has the
    listed size and every listed digest. -/
theorem C01_file_ok_iff (m : FileMeta) (esize : Nat) (cks : List (Str × Str)) (lm : Option Int)
    (hk : DigestsKnown m cks) :
    fileCheck m esize cks lm = .ok true ↔
      (m.stSize = 0 ∨ m.stSize = esize) ∧ (mtimeSkip m lm = true ∨ (m.size = esize ∧ DigestsEqual m cks)) := by
  obtain ⟨b, hb, hbe⟩ := digestsMatch_known m cks hk
  unfold fileCheck
  by_cases hs : m.stSize ≠ 0 ∧ m.stSize ≠ esize
  · rw [if_pos hs]
    constructor
    · intro h; cases h
    · rintro ⟨h, _⟩; omega
  · rw [if_neg hs]
    have hsz : m.stSize = 0 ∨ m.stSize = esize := by omega
    by_cases hskip : mtimeSkip m lm = true
    · simp [hskip, hsz]
    · simp only [hskip, Bool.false_eq_true, if_false, hb, Except.ok.injEq, Bool.and_eq_true, decide_eq_true_eq, false_or]
      constructor
      · rintro ⟨h1, h2⟩; exact ⟨hsz, h1, hbe.mp h2⟩
      · rintro ⟨_, h1, h2⟩; exact ⟨h1, hbe.mpr h2⟩

theorem mtimeSkip_iff (m : FileMeta) (lm : Option Int) :
    mtimeSkip m lm = true ↔ ∃ t, lm = some t ∧ m.mtime ≤ t ∧ m.stSize ≠ 0 := by
  cases lm with
  | none => simp [mtimeSkip]
  | some t => simp [mtimeSkip]

/-- **mtime rule.** Supplying a last-verification mtime can turn the verdict on
    a file into success only if the file is not newer than it, has a non-zero
    apparent size, and that size equals the listed one. -/
theorem C01_mtime_skip_only (m : FileMeta) (esize : Nat) (cks : List (Str × Str)) (tm : Int)
    (h : fileCheck m esize cks (some tm) = .ok true) :
    fileCheck m esize cks none = .ok true ∨ (m.mtime ≤ tm ∧ m.stSize ≠ 0 ∧ m.stSize = esize) ∨
    (∃ err, fileCheck m esize cks none = .error err) := by
  unfold fileCheck at h ⊢
  by_cases hs : m.stSize ≠ 0 ∧ m.stSize ≠ esize
  · rw [if_pos hs] at h; cases h
  · rw [if_neg hs] at h ⊢
    by_cases hskip : mtimeSkip m (some tm) = true
    · obtain ⟨t, ht, h1, h2⟩ := (mtimeSkip_iff m (some tm)).mp hskip
      cases ht
      right; left; exact ⟨h1, h2, by omega⟩
    · simp only [hskip, Bool.false_eq_true, if_false] at h
      simp only [mtimeSkip, Bool.false_eq_true, if_false]
      cases hdm : digestsMatch m cks with
      | error err => right; right; exact ⟨err, rfl⟩
      | ok b => left; simpa [hdm] using h

/-- success without the mtime is never lost by supplying one -/
theorem C01_mtime_monotone (m : FileMeta) (esize : Nat) (cks : List (Str × Str)) (tm : Int)
    (h : fileCheck m esize cks none = .ok true) : fileCheck m esize cks (some tm) = .ok true := by
  unfold fileCheck at h ⊢
  by_cases hs : m.stSize ≠ 0 ∧ m.stSize ≠ esize
  · rw [if_pos hs] at h; cases h
  · rw [if_neg hs] at h ⊢
    simp only [mtimeSkip, Bool.false_eq_true, if_false] at h
    split
    · rfl
    · exact h

/-- **compatibility of duplicate entries (complete table of the type stage).**
    Two file entries of different tags are compatible only if both tags are
    among MANIFEST, DATA, EBUILD, AUX. -/
theorem C01_compat_types (t1 t2 : FTag) (p1 p2 : Str) (n : Nat) :
    entryCompat (.file t1 p1 n []) (.file t2 p2 n []) =
      .ok (if t1 = t2 ∨ (compatibleTags.contains t1 ∧ compatibleTags.contains t2) then .ok false else .typeMismatch) := by
  cases t1 <;> cases t2 <;> simp [entryCompat, compatibleTags, cksGet]

theorem C01_compat_size (t : FTag) (p1 p2 : Str) (n1 n2 : Nat) (c1 c2 : List (Str × Str)) (h : n1 ≠ n2) :
    entryCompat (.file t p1 n1 c1) (.file t p2 n2 c2) = .ok .sizeMismatch := by
  simp [entryCompat, h]

theorem C01_ignore_vs_file_incompatible (p q : Str) (t : FTag) (n : Nat) (c : List (Str × Str)) :
    entryCompat (.ignore p) (.file t q n c) = .ok .typeMismatch ∧
    entryCompat (.file t q n c) (.ignore p) = .ok .typeMismatch := ⟨rfl, rfl⟩

/-- **IGNORE matches by whole path components.** An `IGNORE d` covers `d` itself
    and everything below `d/`, and never a sibling whose name merely starts
    with `d`. -/
theorem C01_ignore_component_wise (d rest : Str) (c : Nat) (hne : d ≠ []) (hns : d.getLast? ≠ some slash)
    (hc : c ≠ slash) :
    pathStartsWith d d = true ∧ pathStartsWith (d ++ slash :: rest) d = true ∧
    pathStartsWith (d ++ c :: rest) d = false :=
  ⟨(pathStartsWith_iff d d hne hns).mpr (Or.inl rfl),
   (pathStartsWith_iff _ d hne hns).mpr (Or.inr ⟨rest, rfl⟩),
   pathStartsWith_lookalike d c rest hne hns hc⟩

-- the per-directory step of the walk, default (raising) handler -------------------------------

theorem verifyOne_raise (c : VCfg) (st st' : WalkSt) (rel : Str) (e : Option Entry) (hh : c.handler = .raise)
    (h : verifyOne c st rel e = .ok st') : c.w.verifyPath rel e c.dev? c.lastMtime = .ok true ∧ st' = st := by
  unfold verifyOne at h
  cases hv : c.w.verifyPath rel e c.dev? c.lastMtime with
  | error err => simp [hv] at h
  | ok b =>
    cases b with
    | true => simp [hv] at h; exact ⟨rfl, h.symm⟩
    | false => simp [hv, hh] at h

theorem fold_raise (c : VCfg) (hh : c.handler = .raise) (pf : Str → Str) (dd : List (Str × Entry)) (st st' : WalkSt)
    (h : foldE (leftoverStep c pf) st dd = .ok st') :
    st' = st ∧ ∀ fe ∈ dd, c.w.verifyPath (pf fe.1) (some fe.2) c.dev? c.lastMtime = .ok true := by
  induction dd generalizing st with
  | nil => simp [foldE] at h; exact ⟨h.symm, by simp⟩
  | cons fe dd ih =>
    simp only [foldE] at h
    cases hv : leftoverStep c pf st fe with
    | error err => simp [hv] at h
    | ok st1 =>
      simp only [hv] at h
      obtain ⟨h1, h2⟩ := verifyOne_raise c st st1 _ _ hh hv
      subst h2
      obtain ⟨h3, h4⟩ := ih st1 h
      exact ⟨h3, by intro x hx; simp at hx; rcases hx with rfl | hx; exact h1; exact h4 x hx⟩

/-- **leftover entries of a directory (default handler).** If the loop over the
    entries left in a directory's dict succeeds, every one of them verified:
    a listed file that is missing makes it fail. -/
theorem C01_leftovers_sound (c : VCfg) (hh : c.handler = .raise) (rel : Str) (dd : List (Str × Entry)) (st st' : WalkSt)
    (h : foldE (leftoverStep c (relJoin rel)) st dd = .ok st') :
    ∀ fe ∈ dd, c.w.verifyPath (relJoin rel fe.1) (some fe.2) c.dev? c.lastMtime = .ok true :=
  (fold_raise c hh (relJoin rel) dd st st' h).2

theorem find_filter_ne (l : List (Str × Entry)) (f x : Str) (hne : x ≠ f) :
    (l.filter (·.1 != f)).find? (·.1 == x) = l.find? (·.1 == x) := by
  induction l with
  | nil => rfl
  | cons kv rest ih =>
    by_cases hk : kv.1 = f
    · have h1 : (kv.1 != f) = false := by simp [hk]
      have h2 : (kv.1 == x) = false := by
        simp only [hk, beq_eq_false_iff_ne, ne_eq]; exact fun e => hne e.symm
      simp only [List.filter, h1, List.find?, h2, ih]
    · have h1 : (kv.1 != f) = true := by simpa using hk
      simp only [List.filter, h1, List.find?]
      cases hx : (kv.1 == x) <;> simp [ih]

/-- **files found in a directory (default handler).** If the loop over the
    names found in a directory succeeds, every non-hidden name other than the
    top-level Manifest itself verified against the entry the dict holds for it
    at that moment — `none` (a stray file) never verifies. -/
theorem C01_files_sound (c : VCfg) (hh : c.handler = .raise) (rel : Str) (fs : List Str)
    (acc acc' : WalkSt × List (Str × Entry)) (hnd : fs.Nodup)
    (h : foldE (filesStep c rel) acc fs = .ok acc') :
    acc'.1 = acc.1 ∧ ∀ f ∈ fs, isHidden f = false → relJoin rel f ≠ c.topName →
      c.w.verifyPath (relJoin rel f) (ddGet acc.2 f) c.dev? c.lastMtime = .ok true := by
  induction fs generalizing acc with
  | nil => simp [foldE] at h; exact ⟨by rw [← h], by simp⟩
  | cons f fs ih =>
    have hnd' : fs.Nodup := (List.nodup_cons.mp hnd).2
    have hf : f ∉ fs := (List.nodup_cons.mp hnd).1
    simp only [foldE] at h
    cases hs : filesStep c rel acc f with
    | error err => simp [hs] at h
    | ok acc1 =>
      simp only [hs] at h
      obtain ⟨h1, h2⟩ := ih acc1 hnd' h
      unfold filesStep at hs
      by_cases hh1 : isHidden f = true
      · simp only [hh1, if_true, Except.ok.injEq] at hs
        subst hs
        refine ⟨h1, ?_⟩
        intro x hx hxh hxt
        simp at hx
        rcases hx with rfl | hx
        · simp [hh1] at hxh
        · exact h2 x hx hxh hxt
      · simp only [hh1, Bool.false_eq_true, if_false] at hs
        by_cases hh2 : (relJoin rel f == c.topName) = true
        · simp only [hh2, if_true, Except.ok.injEq] at hs
          subst hs
          refine ⟨h1, ?_⟩
          intro x hx hxh hxt
          simp at hx
          rcases hx with rfl | hx
          · exact absurd (by simpa using hh2) hxt
          · exact h2 x hx hxh hxt
        · simp only [hh2, Bool.false_eq_true, if_false] at hs
          cases hv : verifyOne c acc.1 (relJoin rel f) (ddGet acc.2 f) with
          | error err => simp [hv] at hs
          | ok st1 =>
            simp only [hv, Except.ok.injEq] at hs
            subst hs
            obtain ⟨hv1, hv2⟩ := verifyOne_raise c _ _ _ _ hh hv
            refine ⟨by rw [h1, hv2], ?_⟩
            intro x hx hxh hxt
            simp at hx
            rcases hx with rfl | hx
            · exact hv1
            · have := h2 x hx hxh hxt
              have hne : x ≠ f := fun e => hf (e ▸ hx)
              have hget : ddGet (acc.2.filter (·.1 != f)) x = ddGet acc.2 x := by
                unfold ddGet; rw [find_filter_ne acc.2 f x hne]
              simpa [hget] using this

theorem missing_fold_sound (c : VCfg) (hh : c.handler = .raise) (ed : EntryDict) (st0 st' : WalkSt)
    (h : foldE (fun (acc : WalkSt) (dd : Str × List (Str × Entry)) => foldE (leftoverStep c (pjoin dd.1)) acc dd.2) st0 ed = .ok st') :
    ∀ dd ∈ ed, ∀ fe ∈ dd.2, c.w.verifyPath (pjoin dd.1 fe.1) (some fe.2) c.dev? c.lastMtime = .ok true := by
  induction ed generalizing st0 with
  | nil => simp
  | cons dd rest ih =>
    simp only [foldE] at h
    cases hin : foldE (leftoverStep c (pjoin dd.1)) st0 dd.2 with
    | error err => simp [hin] at h
    | ok st1 =>
      simp only [hin] at h
      obtain ⟨h1, h2⟩ := fold_raise c hh (pjoin dd.1) dd.2 st0 st1 hin
      subst h1
      intro x hx
      simp at hx
      rcases hx with rfl | hx
      · exact h2
      · exact ih st1 h x hx

/-- **missing-directory pass (default handler).** If the pass over entries whose
    directory was never visited succeeds, every such entry verified. -/
theorem C01_missing_pass_sound (c : VCfg) (hh : c.handler = .raise) (st st' : WalkSt)
    (h : missingDirsPass c st = .ok st') :
    ∀ dd ∈ st.ed, ∀ fe ∈ dd.2, c.w.verifyPath (pjoin dd.1 fe.1) (some fe.2) c.dev? c.lastMtime = .ok true :=
  missing_fold_sound c hh st.ed _ st' h

-- non-vacuity ------------------------------------------------------------------------
example : verifyObj (.file ⟨1, 3, 3, 10, [([77, 68, 53], [97])], none⟩) [120]
    (some (.file .DATA [120] 3 [([77, 68, 53], [97])])) none none = .ok true := by rfl
example : verifyObj (.file ⟨1, 3, 3, 10, [([77, 68, 53], [98])], none⟩) [120]
    (some (.file .DATA [120] 3 [([77, 68, 53], [97])])) none none = .ok false := by rfl
example : verifyObj (.file ⟨1, 3, 3, 10, [([77, 68, 53], [98])], none⟩) [120]
    (some (.file .DATA [120] 3 [([77, 68, 53], [97])])) none (some 10) = .ok true := by rfl

end Gemato.C01
