import Gemato.Props.C13
import Gemato.Props.C03b
/-
  C13 / C03 — "parents reference the new name": when `save_manifests` (forced) refreshes the MANIFEST entries of a
  Manifest, every Manifest processed earlier in this save is read back from what THIS save wrote - under its new name
  if the watermark renamed it (`save_reads_back_what_it_wrote`). With `saveOrder_referenced_first` (every referenced
  Manifest is processed earlier) this is the backbone of "the parent's entry describes the file as rewritten".
-/
namespace Gemato.C13
open Gemato.L1 Gemato.U Gemato.Prof

/-- the name a MANIFEST entry for `z` is refreshed under: the new name if this save renamed `z` -/
def target (ss : SSt) (z : Str) : Str :=
  match ss.renamed.find? (·.1 == z) with
  | some (_, nw) => nw
  | none => z

/-- a refresh of an entry for `z` reads what this save wrote -/
def Wr (ss : SSt) (z : Str) : Prop := ss.written.contains (target ss z) = true

def keysOf (ss : SSt) : List Str := ss.st.loaded.map (·.1)

/-- what the write step does to the bookkeeping, in its two outcomes -/
theorem writeStep_effects (o : SaveOpts) (ss1 : SSt) (mp : Str) (hk : mp ∈ keysOf ss1) :
    ((writeStep o ss1 mp).renamed = ss1.renamed ∧ (writeStep o ss1 mp).written = setAdd ss1.written mp ∧
      keysOf (writeStep o ss1 mp) = keysOf ss1) ∨
    (∃ newMp, newMp ∉ keysOf ss1 ∧ (writeStep o ss1 mp).renamed = ss1.renamed ++ [(mp, newMp)] ∧
      (writeStep o ss1 mp).written = setAdd ((setAdd ss1.written mp).filter (· != mp)) newMp ∧
      keysOf (writeStep o ss1 mp) = (keysOf ss1).map fun k => if k == mp then newMp else k) := by
  have hkeys2 : ∀ ids, ((ss1.st.setIds mp ids).loaded.map (·.1)) = keysOf ss1 := by
    intro ids
    unfold St.setIds keysOf
    have hany : ss1.st.loaded.any (·.1 == mp) = true := by
      unfold keysOf at hk
      obtain ⟨kv, hkv, e⟩ := List.mem_map.mp hk
      exact List.any_eq_true.mpr ⟨kv, hkv, by simp [e]⟩
    simp only [hany, if_true, List.map_map]
    apply List.map_congr_left
    intro kv _
    simp only [Function.comp]
    split
    · rename_i h
      exact (by simpa using h : kv.1 = mp).symm
    · rfl
  cases hw : o.watermark with
  | none =>
    left
    refine ⟨?_, ?_, ?_⟩
    · simp [writeStep, hw]
    · simp [writeStep, hw]
    · simp only [writeStep, hw]
      exact hkeys2 _
  | some wm =>
    let es' := if o.sort then stableSort (fun a b => entryLt a.2 b.2) (ss1.st.entriesOf mp) else ss1.st.entriesOf mp
    let text := dumpEntries false (es'.map (·.2))
    let want := wantCompressed o.profile mp (hasEbuildEntry es') (uncSizeFor o (signFor ss1.st mp) text) wm
    let newMp := if want then mp ++ 46 :: o.format else mp.take (mp.length - (((compressedSuffix? mp).getD []).length + 1))
    let taken := (ss1.st.setIds mp (es'.map (·.1))).loaded.any (·.1 == newMp)
    obtain ⟨r, hr⟩ : ∃ r, r = writeStep o ss1 mp := ⟨_, rfl⟩
    rw [← hr]
    simp only [writeStep, hw] at hr
    by_cases hB : ((compressedSuffix? mp).isSome == want) = true
    · rw [if_pos hB] at hr
      left
      rw [hr]
      exact ⟨rfl, rfl, hkeys2 _⟩
    · rw [if_neg hB] at hr
      by_cases hT : taken = true
      · rw [if_pos hT] at hr
        left
        rw [hr]
        exact ⟨rfl, rfl, hkeys2 _⟩
      · rw [if_neg hT] at hr
        right
        refine ⟨newMp, ?_, ?_, ?_, ?_⟩
        · intro hmem
          apply hT
          have : newMp ∈ (ss1.st.setIds mp (es'.map (·.1))).loaded.map (·.1) := by rw [hkeys2]; exact hmem
          obtain ⟨kv, hkv, e⟩ := List.mem_map.mp this
          exact List.any_eq_true.mpr ⟨kv, hkv, by simp [e]⟩
        · rw [hr]
        · rw [hr]
        · rw [hr]
          show (List.map (fun kv => if (kv.1 == mp) = true then (newMp, _) else kv) _).map (·.1) = _
          rw [List.map_map, ← hkeys2 (es'.map (·.1)), List.map_map]
          apply List.map_congr_left
          intro kv _
          simp only [Function.comp]
          by_cases h : kv.1 = mp
          · simp [h]
          · simp [h]

theorem refreshStep_keeps (w : World) (post : Str → Option FileMeta) (o : SaveOpts) (mp rel : Str)
    (acc acc1 : SSt) (ie : IEntry) (h : refreshStep w post o mp rel acc ie = .ok acc1) :
    acc1.renamed = acc.renamed ∧ acc1.written = acc.written ∧ keysOf acc1 = keysOf acc := by
  unfold refreshStep at h
  split at h
  · simp only at h
    split at h
    · cases h; exact ⟨rfl, rfl, rfl⟩
    · split at h
      · cases h
      · split at h
        · cases h
        · split at h
          · cases h
          · cases h; exact ⟨rfl, rfl, rfl⟩
  · cases h; exact ⟨rfl, rfl, rfl⟩

theorem refreshFold_keeps (w : World) (post : Str → Option FileMeta) (o : SaveOpts) (mp rel : Str) :
    ∀ (es : List IEntry) (ss ss1 : SSt), foldE (refreshStep w post o mp rel) ss es = .ok ss1 →
      ss1.renamed = ss.renamed ∧ ss1.written = ss.written ∧ keysOf ss1 = keysOf ss := by
  intro es
  induction es with
  | nil => intro ss ss1 h; simp [foldE] at h; subst h; exact ⟨rfl, rfl, rfl⟩
  | cons ie es ih =>
    intro ss ss1 h
    simp only [foldE] at h
    split at h
    · cases h
    · rename_i s1 hs1
      obtain ⟨a1, a2, a3⟩ := refreshStep_keeps w post o mp rel ss s1 ie hs1
      obtain ⟨b1, b2, b3⟩ := ih s1 ss1 h
      exact ⟨b1.trans a1, b2.trans a2, b3.trans a3⟩

/-- a forced `saveOne` in its two outcomes -/
theorem saveOne_force (w : World) (post : Str → Option FileMeta) (o : SaveOpts) (ss ss1 : SSt) (mp rel : Str)
    (hf : o.force = true) (hk : mp ∈ keysOf ss) (h : saveOne w post o ss mp rel = .ok ss1) :
    (ss1.renamed = ss.renamed ∧ ss1.written = setAdd ss.written mp ∧ keysOf ss1 = keysOf ss) ∨
    (∃ newMp, newMp ∉ keysOf ss ∧ ss1.renamed = ss.renamed ++ [(mp, newMp)] ∧
      ss1.written = setAdd ((setAdd ss.written mp).filter (· != mp)) newMp ∧
      keysOf ss1 = (keysOf ss).map fun k => if k == mp then newMp else k) := by
  unfold saveOne at h
  split at h
  · cases h
  · rename_i sa ha
    obtain ⟨r1, r2, r3⟩ := refreshFold_keeps w post o mp rel _ ss sa ha
    simp only [hf, Bool.true_or, Bool.not_true, Bool.false_eq_true, if_false] at h
    split at h
    · cases h
    · cases h
      have hk1 : mp ∈ keysOf sa := by rw [r3]; exact hk
      rcases writeStep_effects o sa mp hk1 with ⟨e1, e2, e3⟩ | ⟨newMp, n1, e1, e2, e3⟩
      · exact Or.inl ⟨e1.trans r1, by rw [e2, r2], e3.trans r3⟩
      · exact Or.inr ⟨newMp, by rw [← r3]; exact n1, by rw [e1, r1], by rw [e2, r2], by rw [e3, r3]⟩

/-! ## the invariant of a forced save -/

theorem mem_setAdd (l : List Str) (x y : Str) (h : y ∈ l) : y ∈ setAdd l x := by
  unfold setAdd; split
  · exact h
  · exact List.mem_append_left _ h

theorem mem_setAdd_self (l : List Str) (x : Str) : x ∈ setAdd l x := by
  unfold setAdd; split
  · rename_i h; simpa using h
  · simp

theorem find_append_some {α : Type} (l r : List α) (p : α → Bool) (x : α) (h : l.find? p = some x) : (l ++ r).find? p = some x := by
  rw [List.find?_append, h]; rfl

theorem find_append_none {α : Type} (l r : List α) (p : α → Bool) (h : l.find? p = none) : (l ++ r).find? p = r.find? p := by
  rw [List.find?_append, h]; rfl

structure SInv (ss : SSt) (done rest : List Str) : Prop where
  wr : ∀ z ∈ done, Wr ss z
  renk : ∀ p ∈ ss.renamed, p.1 ∈ done
  rent : ∀ p ∈ ss.renamed, p.2 ∉ rest
  keys : ∀ x ∈ rest, x ∈ keysOf ss

theorem find_none_of_keys (ren : List (Str × Str)) (z : Str) (h : ∀ p ∈ ren, p.1 ≠ z) : ren.find? (·.1 == z) = none := by
  rw [List.find?_eq_none]
  intro p hp
  simpa using h p hp

theorem saveOne_inv (w : World) (post : Str → Option FileMeta) (o : SaveOpts) (ss ss1 : SSt) (mp rel : Str)
    (done rest : List Str) (hf : o.force = true) (hnd : mp ∉ done) (hnr : mp ∉ rest)
    (hi : SInv ss done (mp :: rest)) (h : saveOne w post o ss mp rel = .ok ss1) : SInv ss1 (done ++ [mp]) rest := by
  have hk : mp ∈ keysOf ss := hi.keys mp (by simp)
  have hnokey : ss.renamed.find? (·.1 == mp) = none :=
    find_none_of_keys _ _ (fun p hp hpe => hnd (hpe ▸ hi.renk p hp))
  rcases saveOne_force w post o ss ss1 mp rel hf hk h with ⟨e1, e2, e3⟩ | ⟨newMp, n1, e1, e2, e3⟩
  · refine ⟨?_, ?_, ?_, ?_⟩
    · intro z hz
      rcases List.mem_append.mp hz with hz | hz
      · have := hi.wr z hz
        unfold Wr target at this ⊢
        rw [e1, e2]
        have hm : (match ss.renamed.find? (·.1 == z) with | some (_, nw) => nw | none => z) ∈ ss.written := by simpa using this
        simpa using mem_setAdd _ mp _ hm
      · have : z = mp := by simpa using hz
        subst this
        unfold Wr target
        rw [e1, e2, hnokey]
        simpa using mem_setAdd_self ss.written z
    · intro p hp; rw [e1] at hp; exact List.mem_append_left _ (hi.renk p hp)
    · intro p hp; rw [e1] at hp; exact fun hc => (hi.rent p hp) (List.mem_cons_of_mem _ hc)
    · intro x hx; rw [e3]; exact hi.keys x (List.mem_cons_of_mem _ hx)
  · refine ⟨?_, ?_, ?_, ?_⟩
    · intro z hz
      rcases List.mem_append.mp hz with hz | hz
      · have hzne : z ≠ mp := fun hh => hnd (hh ▸ hz)
        have hw := hi.wr z hz
        unfold Wr target at hw ⊢
        rw [e1, e2]
        -- the lookup for `z` is not affected by the appended pair
        have hfind : (ss.renamed ++ [(mp, newMp)]).find? (·.1 == z) = ss.renamed.find? (·.1 == z) := by
          cases hq : ss.renamed.find? (·.1 == z) with
          | some v => exact find_append_some _ _ _ _ hq
          | none =>
            rw [find_append_none _ _ _ hq]
            have : (mp == z) = false := by simpa using fun hh => hzne hh.symm
            simp [List.find?, this]
        rw [hfind]
        have hm : (match ss.renamed.find? (·.1 == z) with | some (_, nw) => nw | none => z) ∈ ss.written := by simpa using hw
        -- the name read back is not `mp`: it is `z` itself, or an earlier rename target (never a Manifest still to come)
        have hne : (match ss.renamed.find? (·.1 == z) with | some (_, nw) => nw | none => z) ≠ mp := by
          cases hq : ss.renamed.find? (·.1 == z) with
          | none => simpa using hzne
          | some v =>
            obtain ⟨a, nw⟩ := v
            simp only
            intro hh
            exact hi.rent (a, nw) (List.mem_of_find?_eq_some hq) (by simp [hh])
        have h2 : (match ss.renamed.find? (·.1 == z) with | some (_, nw) => nw | none => z) ∈
            (setAdd ss.written mp).filter (· != mp) :=
          List.mem_filter.mpr ⟨mem_setAdd _ mp _ hm, by simpa using hne⟩
        simpa using mem_setAdd _ newMp _ h2
      · have : z = mp := by simpa using hz
        subst this
        unfold Wr target
        rw [e1, e2, find_append_none _ _ _ hnokey]
        simp only [List.find?, BEq.rfl]
        simpa using mem_setAdd_self _ newMp
    · intro p hp
      rw [e1] at hp
      rcases List.mem_append.mp hp with hp | hp
      · exact List.mem_append_left _ (hi.renk p hp)
      · have : p = (mp, newMp) := by simpa using hp
        subst this; simp
    · intro p hp
      rw [e1] at hp
      rcases List.mem_append.mp hp with hp | hp
      · exact fun hc => (hi.rent p hp) (List.mem_cons_of_mem _ hc)
      · have : p = (mp, newMp) := by simpa using hp
        subst this
        exact fun hc => n1 (hi.keys newMp (List.mem_cons_of_mem _ hc))
    · intro x hx
      rw [e3]
      have hxk := hi.keys x (List.mem_cons_of_mem _ hx)
      have hxne : x ≠ mp := fun hh => hnr (hh ▸ hx)
      exact List.mem_map.mpr ⟨x, hxk, by simp [hxne]⟩

/-- one Manifest of the save order -/
def saveF (w : World) (post : Str → Option FileMeta) (o : SaveOpts) (ss : SSt) (kdv : C03.X) : Except Err SSt :=
  saveOne w post o ss kdv.1 kdv.2.1

theorem foldE_append_ok {σ α : Type} (f : σ → α → Except Err σ) : ∀ (a b : List α) (s s1 : σ),
    foldE f s (a ++ b) = .ok s1 → ∃ si, foldE f s a = .ok si ∧ foldE f si b = .ok s1 := by
  intro a
  induction a with
  | nil => intro b s s1 h; exact ⟨s, rfl, by simpa using h⟩
  | cons x xs ih =>
    intro b s s1 h
    simp only [List.cons_append, foldE] at h
    cases hf : f s x with
    | error e => simp [hf] at h
    | ok s2 =>
      simp only [hf] at h
      obtain ⟨si, h1, h2⟩ := ih b s2 s1 h
      exact ⟨si, by simp [foldE, hf, h1], h2⟩

theorem saveFold_inv (w : World) (post : Str → Option FileMeta) (o : SaveOpts) (hf : o.force = true) :
    ∀ (l : List C03.X) (ss ss1 : SSt) (done tail : List Str),
      (C03.paths l ++ tail).Nodup → (∀ z ∈ done, z ∉ C03.paths l ++ tail) → SInv ss done (C03.paths l ++ tail) →
      foldE (saveF w post o) ss l = .ok ss1 → SInv ss1 (done ++ C03.paths l) tail := by
  intro l
  induction l with
  | nil => intro ss ss1 done tail _ _ hi h; simp [foldE] at h; subst h; simpa [C03.paths] using hi
  | cons x xs ih =>
    intro ss ss1 done tail hnd hdis hi h
    simp only [foldE] at h
    cases hs : saveF w post o ss x with
    | error e => simp [hs] at h
    | ok s2 =>
      simp only [hs] at h
      have hp : C03.paths (x :: xs) ++ tail = x.1 :: (C03.paths xs ++ tail) := by simp [C03.paths]
      rw [hp] at hnd hdis hi
      have hx := List.nodup_cons.mp hnd
      have hxd : x.1 ∉ done := fun hc => hdis x.1 hc (by simp)
      have i2 := saveOne_inv w post o ss s2 x.1 x.2.1 done (C03.paths xs ++ tail) hf hxd hx.1 hi hs
      have := ih s2 ss1 (done ++ [x.1]) tail hx.2 (by
        intro z hz hc
        rcases List.mem_append.mp hz with hz | hz
        · exact hdis z hz (List.mem_cons_of_mem _ hc)
        · have : z = x.1 := by simpa using hz
          subst this; exact hx.1 hc) i2 h
      simpa [C03.paths, List.append_assoc] using this

/-- **a forced save reads back what it wrote.** At the moment `save_manifests(force=True)` turns to the Manifest `x`,
    every Manifest processed before it - by `saveOrder_referenced_first` that includes every loaded Manifest `x`
    references - is refreshed from what THIS save wrote: its name is in `written`, under the new name if the watermark
    renamed it (the lookup `renamed` is consulted first). So a parent's MANIFEST entry describes the file as rewritten
    and names it as renamed. -/
theorem save_reads_back_what_it_wrote (w : World) (post : Str → Option FileMeta) (o : SaveOpts) (s1 : St) (ss1 : SSt)
    (hf : o.force = true) (hnd : (C03.paths (saveOrder s1.plain)).Nodup)
    (hkeys : ∀ z ∈ C03.paths (saveOrder s1.plain), z ∈ s1.loaded.map (·.1))
    (pre : List C03.X) (x : C03.X) (post1 : List C03.X) (hsplit : saveOrder s1.plain = pre ++ x :: post1)
    (h : foldE (saveF w post o) ({ st := s1 } : SSt) (saveOrder s1.plain) = .ok ss1) :
    ∃ ssi, foldE (saveF w post o) ({ st := s1 } : SSt) pre = .ok ssi ∧ ∀ z ∈ C03.paths pre, Wr ssi z := by
  rw [hsplit] at h hnd hkeys
  obtain ⟨ssi, h1, _⟩ := foldE_append_ok _ pre (x :: post1) _ _ h
  refine ⟨ssi, h1, ?_⟩
  have hp : C03.paths (pre ++ x :: post1) = C03.paths pre ++ C03.paths (x :: post1) := by simp [C03.paths]
  rw [hp] at hnd hkeys
  have i0 : SInv ({ st := s1 } : SSt) [] (C03.paths pre ++ C03.paths (x :: post1)) := by
    refine ⟨?_, ?_, ?_, ?_⟩
    · intro z hz; cases hz
    · intro p hp; cases hp
    · intro p hp; cases hp
    · intro z hz; exact hkeys z hz
  have hd0 : ∀ z ∈ ([] : List Str), z ∉ C03.paths pre ++ C03.paths (x :: post1) := by
    intro z hz; cases hz
  have inv := saveFold_inv w post o hf pre ({ st := s1 } : SSt) ssi [] (C03.paths (x :: post1)) hnd hd0 i0 h1
  intro z hz
  exact inv.wr z (by simpa using hz)

/-- **parents reference what was written.** In a forced save, when `save_manifests` turns to the Manifest `x`, every
    loaded Manifest `y` that an entry of `x` names - in `x`'s own directory or in a longer one - has already been written
    by this save, and `x`'s entry for it is refreshed from that content, under `y`'s new name if the watermark renamed it
    (`saveOrder_referenced_first` + `save_reads_back_what_it_wrote`). -/
theorem forced_save_refreshes_from_rewritten (w : World) (post : Str → Option FileMeta) (o : SaveOpts) (s1 : St) (ss1 : SSt)
    (hf : o.force = true) (rank : Str → Nat)
    (hrank : ∀ x ∈ C03.byDepth s1.plain, ∀ y ∈ C03.refsIn (C03.byDepth s1.plain) x, rank y.1 < rank x.1)
    (hdist : (C03.paths (C03.byDepth s1.plain)).Nodup)
    (hkeys : ∀ z ∈ C03.paths (saveOrder s1.plain), z ∈ s1.loaded.map (·.1))
    (pre : List C03.X) (x : C03.X) (post1 : List C03.X) (hsplit : saveOrder s1.plain = pre ++ x :: post1)
    (h : foldE (saveF w post o) ({ st := s1 } : SSt) (saveOrder s1.plain) = .ok ss1)
    (y : C03.X) (hy : y ∈ C03.byDepth s1.plain) (hne : y.1 ≠ x.1)
    (p : Str) (n : Nat) (c : List (Str × Str)) (hp : Entry.file .MANIFEST p n c ∈ x.2.2) (hyp : y.1 = pjoin x.2.1 p)
    (hcase : dirname y.1 = x.2.1 ∨ x.2.1.length < y.2.1.length) :
    ∃ ssi, foldE (saveF w post o) ({ st := s1 } : SSt) pre = .ok ssi ∧ Wr ssi y.1 := by
  have hnd := C03.saveOrder_nodup s1.plain rank hrank
  obtain ⟨ssi, h1, h2⟩ := save_reads_back_what_it_wrote w post o s1 ss1 hf hnd hkeys pre x post1 hsplit h
  exact ⟨ssi, h1, h2 y.1 (C03.saveOrder_referenced_first s1.plain rank hrank hdist pre x post1 hsplit y hy hne p n c hp hyp hcase)⟩

end Gemato.C13
