import Gemato.Model.Save
import Gemato.Props.C19
/-
  C13 — Compression is transparent and follows the watermark. Theorems about one
  step of `save_manifests` (one loaded Manifest) with a watermark in force.
  "Verification and lookup results do not depend on the format" is decided by
  the correspondence runs over all format assignments.
-/
namespace Gemato.C13
open Gemato.L1 Gemato.U Gemato.Prof

/-- what a Manifest is stored as after its step: (final name, is it compressed?) -/
def finalName (o : SaveOpts) (ss1 : SSt) (mp : Str) : Str :=
  match (writeStep o ss1 mp).renamed.find? (·.1 == mp) with
  | some (_, nw) => nw
  | none => mp

/-- **no watermark: compression is left as it is** -/
theorem C13_no_watermark_no_rename (o : SaveOpts) (ss1 : SSt) (mp : Str) (h : o.watermark = none) :
    (writeStep o ss1 mp).renamed = ss1.renamed ∧
    ∃ text sg, (writeStep o ss1 mp).writes = ss1.writes ++ [.file mp text sg] := by
  simp [writeStep, h]

/-- **the watermark rule.** With a watermark, a rewritten Manifest changes its
    stored form exactly when the policy's verdict differs from its current
    suffix; then it is written under the new name, the old file is unlinked
    (exactly one file remains), and the rename is recorded for the parents. -/
theorem C13_watermark_step (o : SaveOpts) (ss1 : SSt) (mp : Str) (wm : Nat) (h : o.watermark = some wm) :
    let es' := if o.sort then stableSort (fun a b => entryLt a.2 b.2) (ss1.st.entriesOf mp) else ss1.st.entriesOf mp
    let text := dumpEntries false (es'.map (·.2))
    let want := wantCompressed o.profile mp (hasEbuildEntry es') (uncSizeFor o (signFor ss1.st mp) text) wm
    let r := writeStep o ss1 mp
    ((compressedSuffix? mp).isSome = want →
        r.renamed = ss1.renamed ∧ ∃ sg, r.writes = ss1.writes ++ [.file mp text sg]) ∧
    ((compressedSuffix? mp).isSome ≠ want →
        ∃ newMp, r.renamed = ss1.renamed ++ [(mp, newMp)] ∧
          (∃ sg sg', r.writes = ss1.writes ++ [.file mp text sg, .file newMp text sg', .unlink mp]) ∧
          (want = true → newMp = mp ++ 46 :: o.format) ∧
          (want = false → newMp = mp.take (mp.length - (((compressedSuffix? mp).getD []).length + 1)))) := by
  intro es' text want r
  have hr : r = writeStep o ss1 mp := rfl
  simp only [writeStep, h] at hr
  generalize hB : ((compressedSuffix? mp).isSome == _) = B at hr
  have hBw : B = ((compressedSuffix? mp).isSome == want) := hB.symm
  constructor
  · intro heq
    have : B = true := by rw [hBw]; simp [heq]
    subst this
    simp only [if_true] at hr
    rw [hr]
    exact ⟨rfl, _, rfl⟩
  · intro hne
    have : B = false := by rw [hBw]; simpa using hne
    subst this
    simp only [Bool.false_eq_true, if_false] at hr
    rw [hr]
    refine ⟨_, rfl, ⟨_, _, by rw [List.append_assoc]; rfl⟩, ?_, ?_⟩
    · intro hw; simp only [want, es', text] at hw; rw [if_pos hw]
    · intro hw; simp only [want, es', text] at hw; rw [if_neg (by rw [hw]; simp)]

/-- a file literally named `Manifest` at the top is never compressed implicitly,
    and compression happens iff the uncompressed size reaches the watermark -/
theorem C13_policy (p : Profile) (relpath : Str) (hasEbuild : Bool) (size wm : Nat) :
    wantCompressed p sManifest hasEbuild size wm = false ∧
    (p ≠ .oldEbuild → (wantCompressed p relpath hasEbuild size wm = true ↔ wm ≤ size ∧ relpath ≠ sManifest)) := by
  constructor
  · cases p <;> cases hasEbuild <;> simp [wantCompressed]
  · intro hp
    cases p with
    | oldEbuild => exact absurd rfl hp
    | default => exact (C19.C19_compression_policy relpath hasEbuild size wm).1
    | ebuild => exact (C19.C19_compression_policy relpath hasEbuild size wm).2.1

/-- the uncompressed size the policy sees is the UTF-8 byte length of the written text -/
theorem utf8Len_ascii (t : Str) (h : ∀ c ∈ t, c < 0x80) : utf8Len t = t.length := by
  unfold utf8Len
  suffices ∀ n, t.foldl (fun n c => n + (if c < 0x80 then 1 else if c < 0x800 then 2 else if c < 0x10000 then 3 else 4)) n = n + t.length by
    simpa using this 0
  induction t with
  | nil => simp
  | cons c t ih =>
    intro n
    have hc := h c (by simp)
    simp only [List.foldl_cons, hc, if_true, List.length_cons]
    rw [ih (fun x hx => h x (by simp [hx]))]
    omega

end Gemato.C13
