import Gemato.Model.Save
import Gemato.Props.C19
/-
  C13 — Compression is transparent and follows the watermark. Theorems about one
  step of `save_manifests` (one loaded Manifest) with a watermark in force.
  "Verification and lookup results do not depend on the format" is decided by
  the correspondence runs over all format assignments.
-/
namespace Gemato.C13
open Gemato.L1 Gemato.U Gemato.Prof

/-- what a Manifest is stored as after its step: (final name, is it compressed?) -/
def finalName (o : SaveOpts) (ss1 : SSt) (mp : Str) : Str :=
  match (writeStep o ss1 mp).renamed.find? (·.1 == mp) with
  | some (_, nw) => nw
  | none => mp

/-- **no watermark: compression is left as it is** -/
theorem C13_no_watermark_no_rename (o : SaveOpts) (ss1 : SSt) (mp : Str) (h : o.watermark = none) :
    (writeStep o ss1 mp).renamed = ss1.renamed ∧
    ∃ text sg, (writeStep o ss1 mp).writes = ss1.writes ++ [.file mp text sg] := by
  simp [writeStep, h]

/-- **the watermark rule.** With a watermark, a rewritten Manifest changes its
    stored form exactly when the policy's verdict differs from its current
    suffix and the new name is not that of another Manifest in use (repair of F8);
    then it is written under the new name, the old file is unlinked
    (exactly one file remains), and the rename is recorded for the parents. -/
theorem C13_watermark_step (o : SaveOpts) (ss1 : SSt) (mp : Str) (wm : Nat) (h : o.watermark = some wm) :
    let es' := if o.sort then stableSort (fun a b => entryLt a.2 b.2) (ss1.st.entriesOf mp) else ss1.st.entriesOf mp
    let text := dumpEntries false (es'.map (·.2))
    let want := wantCompressed o.profile mp (hasEbuildEntry es') (uncSizeFor o (signFor ss1.st mp) text) wm
    let newMp := if want then mp ++ 46 :: o.format else mp.take (mp.length - (((compressedSuffix? mp).getD []).length + 1))
    let taken := (ss1.st.setIds mp (es'.map (·.1))).loaded.any (·.1 == newMp)
    let r := writeStep o ss1 mp
    ((compressedSuffix? mp).isSome = want ∨ taken = true →
        r.renamed = ss1.renamed ∧ ∃ sg, r.writes = ss1.writes ++ [.file mp text sg]) ∧
    ((compressedSuffix? mp).isSome ≠ want → taken = false →
        r.renamed = ss1.renamed ++ [(mp, newMp)] ∧
          (∃ sg sg', r.writes = ss1.writes ++ [.file mp text sg, .file newMp text sg', .unlink mp])) := by
  intro es' text want newMp taken r
  have hr : r = writeStep o ss1 mp := rfl
  simp only [writeStep, h] at hr
  by_cases hB : ((compressedSuffix? mp).isSome == want) = true
  · rw [if_pos hB] at hr
    refine ⟨fun _ => by rw [hr]; exact ⟨rfl, _, rfl⟩, fun hne => absurd (by simpa using hB) hne⟩
  · rw [if_neg hB] at hr
    by_cases hT : taken = true
    · rw [if_pos hT] at hr
      refine ⟨fun _ => by rw [hr]; exact ⟨rfl, _, rfl⟩, fun _ htk => by rw [htk] at hT; cases hT⟩
    · rw [if_neg hT] at hr
      refine ⟨fun hc => ?_, fun _ _ => by rw [hr]; exact ⟨rfl, _, _, by rw [List.append_assoc]; rfl⟩⟩
      rcases hc with heq | htk
      · exact absurd (by simpa using heq) hB
      · exact absurd htk hT

/-- the two outcomes of the write step under a watermark, for use elsewhere: the Manifest is written under its own
    name; or under its own name, then under the new one (compressed suffix added, or the suffix cut off), the old
    file unlinked -/
theorem C13_watermark_cases (o : SaveOpts) (ss1 : SSt) (mp : Str) (wm : Nat) (h : o.watermark = some wm) :
    (∃ text sg, (writeStep o ss1 mp).renamed = ss1.renamed ∧ (writeStep o ss1 mp).writes = ss1.writes ++ [.file mp text sg]) ∨
    (∃ newMp text sg sg', (newMp = mp ++ 46 :: o.format ∨ ∃ k, newMp = mp.take k) ∧
      (writeStep o ss1 mp).renamed = ss1.renamed ++ [(mp, newMp)] ∧
      (writeStep o ss1 mp).writes = ss1.writes ++ [.file mp text sg, .file newMp text sg', .unlink mp]) := by
  have key := C13_watermark_step o ss1 mp wm h
  revert key
  intro key
  let es' := if o.sort then stableSort (fun a b => entryLt a.2 b.2) (ss1.st.entriesOf mp) else ss1.st.entriesOf mp
  let text := dumpEntries false (es'.map (·.2))
  let want := wantCompressed o.profile mp (hasEbuildEntry es') (uncSizeFor o (signFor ss1.st mp) text) wm
  let newMp := if want then mp ++ 46 :: o.format else mp.take (mp.length - (((compressedSuffix? mp).getD []).length + 1))
  let taken := (ss1.st.setIds mp (es'.map (·.1))).loaded.any (·.1 == newMp)
  have k : ((compressedSuffix? mp).isSome = want ∨ taken = true →
        (writeStep o ss1 mp).renamed = ss1.renamed ∧ ∃ sg, (writeStep o ss1 mp).writes = ss1.writes ++ [.file mp text sg]) ∧
      ((compressedSuffix? mp).isSome ≠ want → taken = false →
        (writeStep o ss1 mp).renamed = ss1.renamed ++ [(mp, newMp)] ∧
          (∃ sg sg', (writeStep o ss1 mp).writes = ss1.writes ++ [.file mp text sg, .file newMp text sg', .unlink mp])) := key
  by_cases hB : (compressedSuffix? mp).isSome = want
  · obtain ⟨e1, sg, e2⟩ := k.1 (Or.inl hB)
    exact Or.inl ⟨text, sg, e1, e2⟩
  · by_cases hT : taken = true
    · obtain ⟨e1, sg, e2⟩ := k.1 (Or.inr hT)
      exact Or.inl ⟨text, sg, e1, e2⟩
    · have hT1 : taken = false := by
        cases hq : taken with
        | false => rfl
        | true => exact absurd hq hT
      obtain ⟨e1, sg, sg', e2⟩ := k.2 hB hT1
      refine Or.inr ⟨newMp, text, sg, sg', ?_, e1, e2⟩
      by_cases hw : want = true
      · exact Or.inl (if_pos hw)
      · exact Or.inr ⟨_, if_neg hw⟩

/-- a file literally named `Manifest` at the top is never compressed implicitly,
    and compression happens iff the uncompressed size reaches the watermark -/
theorem C13_policy (p : Profile) (relpath : Str) (hasEbuild : Bool) (size wm : Nat) :
    wantCompressed p sManifest hasEbuild size wm = false ∧
    (p ≠ .oldEbuild → (wantCompressed p relpath hasEbuild size wm = true ↔ wm ≤ size ∧ relpath ≠ sManifest)) := by
  constructor
  · cases p <;> cases hasEbuild <;> simp [wantCompressed]
  · intro hp
    cases p with
    | oldEbuild => exact absurd rfl hp
    | default => exact (C19.C19_compression_policy relpath hasEbuild size wm).1
    | ebuild => exact (C19.C19_compression_policy relpath hasEbuild size wm).2.1

/-- the uncompressed size the policy sees is the UTF-8 byte length of the written text -/
theorem utf8Len_ascii (t : Str) (h : ∀ c ∈ t, c < 0x80) : utf8Len t = t.length := by
  unfold utf8Len
  suffices ∀ n, t.foldl (fun n c => n + (if c < 0x80 then 1 else if c < 0x800 then 2 else if c < 0x10000 then 3 else 4)) n = n + t.length by
    simpa using this 0
  induction t with
  | nil => simp
  | cons c t ih =>
    intro n
    have hc := h c (by simp)
    simp only [List.foldl_cons, hc, if_true, List.length_cons]
    rw [ih (fun x hx => h x (by simp [hx]))]
    omega

end Gemato.C13
