import Gemato.Model.VerifyDir
/-
  C01 / C07 — the directory verifier, end to end.

  `assert_directory_verifies` is *refined* to two independent things:
  * a **plan**: the list of per-object checks `(path, entry-or-None)` the walk performs, in order, together
    with the structural errors (cross-device directory, symlink loop, unreadable directory) that abort it.
    The plan is a function of the tree and the entry dictionary alone - it does not depend on the fail
    handler, on `last_mtime`, or on the outcome of any check;
  * **running the checks**: `verify_path` on each planned object, the handler deciding what a failed check
    means.
  `verify_eq_plan` proves, for every tree (by induction over it), every entry dictionary and every handler,
  that the model of the real walk equals "run the planned checks in order". The two property theorems follow:
  * C01 (`C01_verdict_is_conjunction`): with the default (raising) handler verification succeeds **iff every
    planned check returns true** - and the plan lists exactly the objects found and the entries left over
    (`plan_lists_found_file`, `plan_lists_leftover_entry`, `plan_skips_hidden_and_top`);
  * C07 (`C07_calls_are_failed_checks`): with a keep-going handler the handler is invoked for exactly the
    planned checks that fail, once each, in plan order, and the result is the conjunction of its verdicts.
-/
namespace Gemato.C01
open Gemato.L1

abbrev Check := Str × Option Entry
abbrev Ids := List (Str × List (Nat × Nat))

/-- run the planned checks in order (`_verify_one_file` on each) -/
def runChecks (c : VCfg) (st : WalkSt) (cs : List Check) : Except Err WalkSt :=
  foldE (fun acc (pe : Check) => verifyOne c acc pe.1 pe.2) st cs

/-- the checks of `for f in filenames` given the directory's dict: hidden names and the top-level Manifest are
    skipped; a checked name is removed from the dict -/
def fileChecks (c : VCfg) (rel : Str) : List (Str × Entry) → List Str → List Check × List (Str × Entry)
  | dd, [] => ([], dd)
  | dd, f :: rest =>
    if isHidden f then fileChecks c rel dd rest
    else if relJoin rel f == c.topName then fileChecks c rel dd rest
    else
      let r := fileChecks c rel (dd.filter (·.1 != f)) rest
      ((relJoin rel f, ddGet dd f) :: r.1, r.2)

def leftoverChecks (pf : Str → Str) (dd : List (Str × Entry)) : List Check := dd.map fun fe => (pf fe.1, some fe.2)

/-- the plan for one directory: structural errors, the new dictionary and ancestor table, the checks, and the
    sub-directories still to be descended -/
def planVisit (c : VCfg) (ed : EntryDict) (ids : Ids) (sysPath rel : Str) (dev ino : Nat) (kids : List (Str × Node)) :
    Except Err (EntryDict × Ids × List Check × List Str) :=
  let st : WalkSt := { ed := ed, ids := ids }
  if devBad c.dev? dev then .error (.crossDevice sysPath)
  else if (parentIds st sysPath).contains (dev, ino) then .error (.symlinkLoop sysPath)
  else
    let pr := prune st sysPath rel dev ino kids
    let fc := fileChecks c rel pr.dirdict1 pr.filenames
    .ok (pr.st1.ed, pr.st1.ids, fc.1 ++ leftoverChecks (relJoin rel) fc.2, pr.keep)

mutual
/-- the plan of the walk below a node -/
def planDir (c : VCfg) (ed : EntryDict) (ids : Ids) (sysPath rel : Str) : Node → Except Err (EntryDict × Ids × List Check)
  | .dir dev ino kids =>
    match planVisit c ed ids sysPath rel dev ino kids with
    | .error e => .error e
    | .ok (ed1, ids1, cs, keep) =>
      match planKids c ed1 ids1 sysPath rel keep kids with
      | .error e => .error e
      | .ok (ed2, ids2, cs2) => .ok (ed2, ids2, cs ++ cs2)
  | .unreadable k true => .error (.os (.code k))
  | _ => .ok (ed, ids, [])
def planKids (c : VCfg) (ed : EntryDict) (ids : Ids) (sysPath rel : Str) (keep : List Str) :
    List (Str × Node) → Except Err (EntryDict × Ids × List Check)
  | [] => .ok (ed, ids, [])
  | (nm, ch) :: rest =>
    if keep.contains nm then
      match planDir c ed ids (pjoin sysPath nm) (relJoin rel nm) ch with
      | .error e => .error e
      | .ok (ed1, ids1, cs) =>
        match planKids c ed1 ids1 sysPath rel keep rest with
        | .error e => .error e
        | .ok (ed2, ids2, cs2) => .ok (ed2, ids2, cs ++ cs2)
    else planKids c ed ids sysPath rel keep rest
end

/-- the checks of the pass over entries whose directory was never visited -/
def missingChecks (ed : EntryDict) : List Check := ed.flatMap fun dd => leftoverChecks (pjoin dd.1) dd.2

/-! ## Checks do not touch the planning state, planning does not touch the verdict -/

def setPlan (s : WalkSt) (ed : EntryDict) (ids : Ids) : WalkSt := { s with ed := ed, ids := ids }

theorem verifyOne_setPlan (c : VCfg) (st : WalkSt) (ed : EntryDict) (ids : Ids) (p : Str) (e : Option Entry) :
    verifyOne c (setPlan st ed ids) p e = (verifyOne c st p e).map fun s => setPlan s ed ids := by
  unfold verifyOne
  split
  · rfl
  · rfl
  · split <;> rfl

theorem verifyOne_keeps_plan (c : VCfg) (st st' : WalkSt) (p : Str) (e : Option Entry)
    (h : verifyOne c st p e = .ok st') : st'.ed = st.ed ∧ st'.ids = st.ids := by
  unfold verifyOne at h
  split at h
  · cases h
  · cases h; exact ⟨rfl, rfl⟩
  · split at h
    · cases h
    · cases h; exact ⟨rfl, rfl⟩

theorem runChecks_nil (c : VCfg) (st : WalkSt) : runChecks c st [] = .ok st := rfl

theorem runChecks_cons (c : VCfg) (st : WalkSt) (pe : Check) (cs : List Check) :
    runChecks c st (pe :: cs) = match verifyOne c st pe.1 pe.2 with
      | .error e => .error e
      | .ok s => runChecks c s cs := by
  simp only [runChecks, foldE]
  cases verifyOne c st pe.1 pe.2 <;> rfl

theorem runChecks_append (c : VCfg) (cs1 cs2 : List Check) : ∀ st : WalkSt,
    runChecks c st (cs1 ++ cs2) = match runChecks c st cs1 with
      | .error e => .error e
      | .ok s => runChecks c s cs2 := by
  induction cs1 with
  | nil => intro st; rfl
  | cons pe rest ih =>
    intro st
    simp only [List.cons_append, runChecks_cons]
    cases verifyOne c st pe.1 pe.2 with
    | error e => rfl
    | ok s => exact ih s

theorem runChecks_setPlan (c : VCfg) (ed : EntryDict) (ids : Ids) (cs : List Check) : ∀ st : WalkSt,
    runChecks c (setPlan st ed ids) cs = (runChecks c st cs).map fun s => setPlan s ed ids := by
  induction cs with
  | nil => intro st; rfl
  | cons pe rest ih =>
    intro st
    simp only [runChecks_cons, verifyOne_setPlan]
    cases verifyOne c st pe.1 pe.2 with
    | error e => rfl
    | ok s => simpa [Except.map] using ih s

theorem runChecks_keeps_plan (c : VCfg) (cs : List Check) : ∀ (st st' : WalkSt),
    runChecks c st cs = .ok st' → st'.ed = st.ed ∧ st'.ids = st.ids := by
  induction cs with
  | nil => intro st st' h; cases h; exact ⟨rfl, rfl⟩
  | cons pe rest ih =>
    intro st st' h
    rw [runChecks_cons] at h
    cases hv : verifyOne c st pe.1 pe.2 with
    | error e => rw [hv] at h; cases h
    | ok s =>
      rw [hv] at h
      obtain ⟨a, b⟩ := verifyOne_keeps_plan c st s _ _ hv
      obtain ⟨a', b'⟩ := ih s st' h
      exact ⟨a'.trans a, b'.trans b⟩

theorem setPlan_self (s : WalkSt) : setPlan s s.ed s.ids = s := rfl

/-! ## One directory -/

theorem files_fold_eq (c : VCfg) (rel : Str) (fs : List Str) : ∀ (st : WalkSt) (dd : List (Str × Entry)),
    foldE (filesStep c rel) (st, dd) fs =
      (runChecks c st (fileChecks c rel dd fs).1).map fun s => (s, (fileChecks c rel dd fs).2) := by
  induction fs with
  | nil => intro st dd; rfl
  | cons f rest ih =>
    intro st dd
    simp only [foldE, filesStep, fileChecks]
    by_cases hh : isHidden f = true
    · simp only [hh, if_true]; exact ih st dd
    · simp only [hh, Bool.false_eq_true, if_false]
      by_cases ht : (relJoin rel f == c.topName) = true
      · simp only [ht, if_true]; exact ih st dd
      · simp only [ht, Bool.false_eq_true, if_false, runChecks_cons]
        cases verifyOne c st (relJoin rel f) (ddGet dd f) with
        | error e => rfl
        | ok s => exact ih s _

theorem leftover_fold_eq (c : VCfg) (pf : Str → Str) (dd : List (Str × Entry)) : ∀ st : WalkSt,
    foldE (leftoverStep c pf) st dd = runChecks c st (leftoverChecks pf dd) := by
  induction dd with
  | nil => intro st; rfl
  | cons fe rest ih =>
    intro st
    simp only [foldE, leftoverStep, leftoverChecks, List.map_cons, runChecks_cons]
    cases verifyOne c st (pf fe.1) (some fe.2) with
    | error e => rfl
    | ok s => exact ih s

theorem prune_setPlan (st : WalkSt) (sys rel : Str) (dev ino : Nat) (kids : List (Str × Node)) :
    (prune st sys rel dev ino kids).st1 =
      setPlan st (prune { ed := st.ed, ids := st.ids } sys rel dev ino kids).st1.ed
                 (prune { ed := st.ed, ids := st.ids } sys rel dev ino kids).st1.ids ∧
    (prune st sys rel dev ino kids).dirdict1 = (prune { ed := st.ed, ids := st.ids } sys rel dev ino kids).dirdict1 ∧
    (prune st sys rel dev ino kids).filenames = (prune { ed := st.ed, ids := st.ids } sys rel dev ino kids).filenames ∧
    (prune st sys rel dev ino kids).keep = (prune { ed := st.ed, ids := st.ids } sys rel dev ino kids).keep := by
  refine ⟨?_, rfl, rfl, rfl⟩
  simp only [prune, setPlan, parentIds]

/-- **one directory of the walk = run its planned checks** -/
theorem visit_eq_plan (c : VCfg) (st : WalkSt) (sys rel : Str) (dev ino : Nat) (kids : List (Str × Node)) :
    visitDir c st sys rel dev ino kids =
      match planVisit c st.ed st.ids sys rel dev ino kids with
      | .error e => .error e
      | .ok (ed', ids', cs, keep) => (runChecks c st cs).map fun s => (setPlan s ed' ids', keep) := by
  unfold visitDir planVisit
  have hp : parentIds ({ ed := st.ed, ids := st.ids } : WalkSt) sys = parentIds st sys := rfl
  simp only [hp]
  split
  · rfl
  · split
    · rfl
    · obtain ⟨p1, p2, p3, p4⟩ := prune_setPlan st sys rel dev ino kids
      simp only
      rw [p1, p2, p3, p4, files_fold_eq]
      generalize (prune { ed := st.ed, ids := st.ids } sys rel dev ino kids) = pr
      rw [runChecks_setPlan, runChecks_append]
      cases hr : runChecks c st (fileChecks c rel pr.dirdict1 pr.filenames).1 with
      | error e => rfl
      | ok s =>
        simp only [Except.map]
        rw [leftover_fold_eq, runChecks_setPlan]
        cases runChecks c s (leftoverChecks (relJoin rel) (fileChecks c rel pr.dirdict1 pr.filenames).2) with
        | error e => rfl
        | ok s2 => rfl

/-! ## The whole walk -/

/-- **the walk over any tree = run the planned checks in order** (when the plan meets no structural error) -/
theorem walk_eq_plan (c : VCfg) (n : Node) :
    ∀ (st : WalkSt) (sys rel : Str) (ed' : EntryDict) (ids' : Ids) (cs : List Check),
      planDir c st.ed st.ids sys rel n = .ok (ed', ids', cs) →
      L1.walkDir c st sys rel n = (runChecks c st cs).map fun s => setPlan s ed' ids' := by
  refine Node.rec
    (motive_1 := fun n => ∀ (st : WalkSt) (sys rel : Str) (ed' : EntryDict) (ids' : Ids) (cs : List Check),
      planDir c st.ed st.ids sys rel n = .ok (ed', ids', cs) →
      L1.walkDir c st sys rel n = (runChecks c st cs).map fun s => setPlan s ed' ids')
    (motive_2 := fun kids => ∀ (st : WalkSt) (sys rel : Str) (keep : List Str) (ed' : EntryDict) (ids' : Ids) (cs : List Check),
      planKids c st.ed st.ids sys rel keep kids = .ok (ed', ids', cs) →
      L1.walkKids c st sys rel keep kids = (runChecks c st cs).map fun s => setPlan s ed' ids')
    (motive_3 := fun p => ∀ (st : WalkSt) (sys rel : Str) (ed' : EntryDict) (ids' : Ids) (cs : List Check),
      planDir c st.ed st.ids sys rel p.2 = .ok (ed', ids', cs) →
      L1.walkDir c st sys rel p.2 = (runChecks c st cs).map fun s => setPlan s ed' ids')
    ?_ ?_ ?_ ?_ ?_ ?_ ?_ ?_ n
  · intro m st sys rel ed' ids' cs h
    simp only [planDir] at h; cases h
    simp [L1.walkDir, runChecks_nil, Except.map, setPlan_self]
  · -- dir
    intro dev ino kids ih st sys rel ed' ids' cs h
    simp only [planDir] at h
    simp only [L1.walkDir, visit_eq_plan]
    cases hv : planVisit c st.ed st.ids sys rel dev ino kids with
    | error e => rw [hv] at h; cases h
    | ok r =>
      obtain ⟨ed1, ids1, cs1, keep⟩ := r
      rw [hv] at h
      simp only at h ⊢
      cases hk : planKids c ed1 ids1 sys rel keep kids with
      | error e => rw [hk] at h; cases h
      | ok r2 =>
        obtain ⟨ed2, ids2, cs2⟩ := r2
        rw [hk] at h
        cases h
        rw [runChecks_append]
        cases hr : runChecks c st cs1 with
        | error e => rfl
        | ok s =>
          simp only [Except.map]
          have := ih (setPlan s ed1 ids1) sys rel keep ed' ids' cs2 (by simpa [setPlan] using hk)
          rw [this, runChecks_setPlan]
          cases runChecks c s cs2 with
          | error e => rfl
          | ok s2 => rfl
  · intro d st sys rel ed' ids' cs h
    simp only [planDir] at h; cases h
    simp [L1.walkDir, runChecks_nil, Except.map, setPlan_self]
  · intro st sys rel ed' ids' cs h
    simp only [planDir] at h; cases h
    simp [L1.walkDir, runChecks_nil, Except.map, setPlan_self]
  · intro code asDir st sys rel ed' ids' cs h
    cases asDir
    · simp only [planDir] at h; cases h
      simp [L1.walkDir, runChecks_nil, Except.map, setPlan_self]
    · simp only [planDir] at h; cases h
  · intro st sys rel keep ed' ids' cs h
    simp only [planKids] at h; cases h
    simp [L1.walkKids, runChecks_nil, Except.map, setPlan_self]
  · -- cons
    intro hd tl ihh iht st sys rel keep ed' ids' cs h
    obtain ⟨nm, ch⟩ := hd
    simp only [planKids] at h
    simp only [L1.walkKids]
    by_cases hk : keep.contains nm = true
    · simp only [hk, if_true] at h ⊢
      cases hd : planDir c st.ed st.ids (pjoin sys nm) (relJoin rel nm) ch with
      | error e => rw [hd] at h; cases h
      | ok r =>
        obtain ⟨ed1, ids1, cs1⟩ := r
        rw [hd] at h
        simp only at h
        cases hr : planKids c ed1 ids1 sys rel keep tl with
        | error e => rw [hr] at h; cases h
        | ok r2 =>
          obtain ⟨ed2, ids2, cs2⟩ := r2
          rw [hr] at h
          cases h
          rw [ihh st (pjoin sys nm) (relJoin rel nm) ed1 ids1 cs1 hd, runChecks_append]
          cases hrun : runChecks c st cs1 with
          | error e => rfl
          | ok s =>
            simp only [Except.map]
            have := iht (setPlan s ed1 ids1) sys rel keep ed' ids' cs2 (by simpa [setPlan] using hr)
            rw [this, runChecks_setPlan]
            cases runChecks c s cs2 with
            | error e => rfl
            | ok s2 => rfl
    · simp only [hk, Bool.false_eq_true, if_false] at h ⊢
      exact iht st sys rel keep ed' ids' cs h
  · intro nm ch ih st sys rel ed' ids' cs h
    exact ih st sys rel ed' ids' cs h

theorem missing_eq_plan (c : VCfg) (st : WalkSt) :
    missingDirsPass c st = runChecks c { st with ed := [] } (missingChecks st.ed) := by
  unfold missingDirsPass missingChecks
  generalize ({ st with ed := [] } : WalkSt) = s0
  generalize st.ed = l
  induction l generalizing s0 with
  | nil => rfl
  | cons dd rest ih =>
    simp only [foldE, List.flatMap_cons, runChecks_append]
    rw [leftover_fold_eq c (pjoin dd.1) dd.2 s0]
    cases runChecks c s0 (leftoverChecks (pjoin dd.1) dd.2) with
    | error e => rfl
    | ok s => exact ih s

/-- everything `assert_directory_verifies` checks below a directory: the walk's checks, then the entries of
    directories the walk never visited -/
structure FullPlan where
  checks : List Check

/-- **`assert_directory_verifies` = run the planned checks.** For every tree, loader, path, handler and
    `last_mtime`: when the entry dictionary builds and the plan meets no structural error, the result of the
    real algorithm is that of running the planned checks in order. -/
theorem verify_eq_plan (w : World) (l l' : Loader) (path rel : Str) (h : Handler) (lm : Option Int)
    (ed ed' : EntryDict) (ids' : Ids) (cs : List Check) (d i : Nat) (ks : List (Str × Node))
    (hed : l.getFileEntryDict w path = .ok (l', ed)) (hrel : relpathOrEmpty? path [] = some rel)
    (hobj : w.obj? path = some (.dir d i ks))
    (hplan : planDir ⟨w, l.top, l.dev?, h, lm⟩ ed [] (if rel.isEmpty then sysRoot else sysRoot ++ slash :: rel) rel (.dir d i ks)
      = .ok (ed', ids', cs)) :
    l.assertDirectoryVerifies w path h lm =
      (runChecks ⟨w, l.top, l.dev?, h, lm⟩ { ed := ed } (cs ++ missingChecks ed')).map
        fun s => (l', { ret := s.ret, calls := s.calls }) := by
  simp only [Loader.assertDirectoryVerifies, hed, hrel, hobj, walkFrom]
  rw [walk_eq_plan _ _ { ed := ed } _ rel ed' ids' cs hplan, runChecks_append]
  cases hr : runChecks ⟨w, l.top, l.dev?, h, lm⟩ { ed := ed } cs with
  | error e => rfl
  | ok s =>
    simp only [Except.map]
    rw [missing_eq_plan]
    have : ({ setPlan s ed' ids' with ed := [] } : WalkSt) = setPlan s [] ids' := rfl
    simp only [setPlan] at this ⊢
    have hs := runChecks_setPlan ⟨w, l.top, l.dev?, h, lm⟩ [] ids' (missingChecks ed') s
    simp only [setPlan] at hs
    rw [hs]
    cases runChecks ⟨w, l.top, l.dev?, h, lm⟩ s (missingChecks ed') with
    | error e => rfl
    | ok s2 => rfl

/-! ## C01: with the raising handler, success is the conjunction of the planned checks -/

def checkOf (c : VCfg) (pe : Check) : Except Err Bool := c.w.verifyPath pe.1 pe.2 c.dev? c.lastMtime

theorem verifyOne_raise_ok_iff (c : VCfg) (hh : c.handler = .raise) (st st' : WalkSt) (pe : Check) :
    verifyOne c st pe.1 pe.2 = .ok st' ↔ checkOf c pe = .ok true ∧ st' = st := by
  unfold verifyOne checkOf
  cases hv : c.w.verifyPath pe.1 pe.2 c.dev? c.lastMtime with
  | error e => simp
  | ok b =>
    cases b
    · simp [hh]
    · simp only [Except.ok.injEq, true_and]; exact ⟨fun h => h.symm, fun h => h.symm⟩

/-- **all checks pass ⇔ the run returns normally** (raising handler), and then nothing was reported -/
theorem runChecks_raise_ok_iff (c : VCfg) (hh : c.handler = .raise) (cs : List Check) : ∀ (st st' : WalkSt),
    runChecks c st cs = .ok st' ↔ (∀ pe ∈ cs, checkOf c pe = .ok true) ∧ st' = st := by
  induction cs with
  | nil => intro st st'; simp [runChecks_nil]; exact ⟨fun h => h.symm, fun h => h.symm⟩
  | cons pe rest ih =>
    intro st st'
    rw [runChecks_cons]
    cases hv : verifyOne c st pe.1 pe.2 with
    | error e =>
      constructor
      · intro h; cases h
      · rintro ⟨hall, _⟩
        have := (verifyOne_raise_ok_iff c hh st st pe).mpr ⟨hall pe List.mem_cons_self, rfl⟩
        rw [hv] at this; cases this
    | ok s =>
      obtain ⟨h1, h2⟩ := (verifyOne_raise_ok_iff c hh st s pe).mp hv
      subst h2
      simp only
      rw [ih]
      constructor
      · rintro ⟨ha, hs⟩
        refine ⟨fun q hq => ?_, hs⟩
        rcases List.mem_cons.mp hq with rfl | hq
        · exact h1
        · exact ha q hq
      · rintro ⟨ha, hs⟩
        exact ⟨fun q hq => ha q (List.mem_cons_of_mem _ hq), hs⟩

/-- the first failing check is the mismatch that is raised -/
theorem runChecks_raise_first_failure (c : VCfg) (hh : c.handler = .raise) (pre : List Check) (pe : Check) (post : List Check)
    (st : WalkSt) (hpre : ∀ q ∈ pre, checkOf c q = .ok true) (hpe : checkOf c pe = .ok false) :
    runChecks c st (pre ++ pe :: post) = .error (.mismatch pe.1) := by
  rw [runChecks_append, (runChecks_raise_ok_iff c hh pre st st).mpr ⟨hpre, rfl⟩]
  simp only [runChecks_cons]
  unfold checkOf at hpe
  simp [verifyOne, hpe, hh]

/-- **C01, end to end.** With the default (raising) handler, `assert_directory_verifies` returns true **iff every
    planned check returns true**: every object the walk finds verifies against its entry (a stray object "verifies"
    against no entry only if it is absent), and every entry left over - in a visited directory or in a directory
    that was never visited - verifies against what is there. No other outcome is a success. -/
theorem C01_verdict_is_conjunction (w : World) (l l' : Loader) (path rel : Str) (lm : Option Int)
    (ed ed' : EntryDict) (ids' : Ids) (cs : List Check) (d i : Nat) (ks : List (Str × Node))
    (hed : l.getFileEntryDict w path = .ok (l', ed)) (hrel : relpathOrEmpty? path [] = some rel)
    (hobj : w.obj? path = some (.dir d i ks))
    (hplan : planDir ⟨w, l.top, l.dev?, .raise, lm⟩ ed [] (if rel.isEmpty then sysRoot else sysRoot ++ slash :: rel) rel (.dir d i ks)
      = .ok (ed', ids', cs)) :
    (∃ r, l.assertDirectoryVerifies w path .raise lm = .ok r) ↔
      ∀ pe ∈ cs ++ missingChecks ed', checkOf ⟨w, l.top, l.dev?, .raise, lm⟩ pe = .ok true := by
  rw [verify_eq_plan w l l' path rel .raise lm ed ed' ids' cs d i ks hed hrel hobj hplan]
  constructor
  · rintro ⟨r, hr⟩
    cases hrun : runChecks ⟨w, l.top, l.dev?, .raise, lm⟩ { ed := ed } (cs ++ missingChecks ed') with
    | error e => rw [hrun] at hr; cases hr
    | ok s => exact ((runChecks_raise_ok_iff _ rfl _ _ s).mp hrun).1
  · intro hall
    rw [(runChecks_raise_ok_iff ⟨w, l.top, l.dev?, .raise, lm⟩ rfl _ { ed := ed } { ed := ed }).mpr ⟨hall, rfl⟩]
    exact ⟨_, rfl⟩

/-- … and a successful verification returns `True` having reported nothing -/
theorem C01_success_value (w : World) (l l' : Loader) (path rel : Str) (lm : Option Int)
    (ed ed' : EntryDict) (ids' : Ids) (cs : List Check) (d i : Nat) (ks : List (Str × Node)) (r : Loader × VerifyResult)
    (hed : l.getFileEntryDict w path = .ok (l', ed)) (hrel : relpathOrEmpty? path [] = some rel)
    (hobj : w.obj? path = some (.dir d i ks))
    (hplan : planDir ⟨w, l.top, l.dev?, .raise, lm⟩ ed [] (if rel.isEmpty then sysRoot else sysRoot ++ slash :: rel) rel (.dir d i ks)
      = .ok (ed', ids', cs))
    (hr : l.assertDirectoryVerifies w path .raise lm = .ok r) : r.2 = { ret := true, calls := [] } := by
  rw [verify_eq_plan w l l' path rel .raise lm ed ed' ids' cs d i ks hed hrel hobj hplan] at hr
  cases hrun : runChecks ⟨w, l.top, l.dev?, .raise, lm⟩ { ed := ed } (cs ++ missingChecks ed') with
  | error e => rw [hrun] at hr; cases hr
  | ok s =>
    rw [hrun] at hr
    obtain ⟨_, hs⟩ := (runChecks_raise_ok_iff _ rfl _ _ s).mp hrun
    subst hs
    cases hr; rfl

/-! ## C07: with a keep-going handler, the handler sees exactly the failed checks -/

def isFailed (r : Except Err Bool) : Bool := match r with | .ok false => true | _ => false

def failed (c : VCfg) (cs : List Check) : List Str := (cs.filter fun pe => isFailed (checkOf c pe)).map (·.1)

theorem runChecks_policy (c : VCfg) (f : Str → Bool) (hh : c.handler = .policy f) (cs : List Check) :
    ∀ (st : WalkSt), (∀ pe ∈ cs, ∃ b, checkOf c pe = .ok b) →
      runChecks c st cs = .ok { st with calls := st.calls ++ failed c cs, ret := st.ret && (failed c cs).all f } := by
  induction cs with
  | nil => intro st _; simp [runChecks_nil, failed]
  | cons pe rest ih =>
    intro st hall
    obtain ⟨b, hb⟩ := hall pe List.mem_cons_self
    have hrest : ∀ q ∈ rest, ∃ b, checkOf c q = .ok b := fun q hq => hall q (List.mem_cons_of_mem _ hq)
    rw [runChecks_cons]
    have hb' := hb
    unfold checkOf at hb'
    cases b
    · simp only [verifyOne, hb', hh]
      rw [ih _ hrest]
      simp [failed, hb, isFailed, List.filter_cons, Bool.and_assoc]
    · simp only [verifyOne, hb']
      rw [ih _ hrest]
      simp [failed, hb, isFailed, List.filter_cons]

/-- **C07, end to end.** In keep-going mode (a handler `f` that returns a verdict), when no check raises an error:
    the handler is invoked for **exactly the planned checks that fail, once each, in plan order**, and the result
    is true iff every invocation returned true. -/
theorem C07_calls_are_failed_checks (w : World) (l l' : Loader) (path rel : Str) (f : Str → Bool) (lm : Option Int)
    (ed ed' : EntryDict) (ids' : Ids) (cs : List Check) (d i : Nat) (ks : List (Str × Node))
    (hed : l.getFileEntryDict w path = .ok (l', ed)) (hrel : relpathOrEmpty? path [] = some rel)
    (hobj : w.obj? path = some (.dir d i ks))
    (hplan : planDir ⟨w, l.top, l.dev?, .policy f, lm⟩ ed [] (if rel.isEmpty then sysRoot else sysRoot ++ slash :: rel) rel (.dir d i ks)
      = .ok (ed', ids', cs))
    (hnoerr : ∀ pe ∈ cs ++ missingChecks ed', ∃ b, checkOf ⟨w, l.top, l.dev?, .policy f, lm⟩ pe = .ok b) :
    l.assertDirectoryVerifies w path (.policy f) lm =
      .ok (l', { calls := failed ⟨w, l.top, l.dev?, .policy f, lm⟩ (cs ++ missingChecks ed'),
                 ret := (failed ⟨w, l.top, l.dev?, .policy f, lm⟩ (cs ++ missingChecks ed')).all f }) := by
  rw [verify_eq_plan w l l' path rel (.policy f) lm ed ed' ids' cs d i ks hed hrel hobj hplan,
    runChecks_policy ⟨w, l.top, l.dev?, .policy f, lm⟩ f rfl _ _ hnoerr]
  simp [Except.map]

/-- the plan does not depend on the handler or on `last_mtime`: the same objects are checked in keep-going mode,
    in raising mode, and in an incremental run -/
theorem plan_independent_of_handler (w : World) (top : Str) (dev? : Option Nat) (h1 h2 : Handler) (lm1 lm2 : Option Int)
    (n : Node) : ∀ (ed : EntryDict) (ids : Ids) (sys rel : Str),
    planDir ⟨w, top, dev?, h1, lm1⟩ ed ids sys rel n = planDir ⟨w, top, dev?, h2, lm2⟩ ed ids sys rel n := by
  have hfc : ∀ rel dd fs, fileChecks ⟨w, top, dev?, h1, lm1⟩ rel dd fs = fileChecks ⟨w, top, dev?, h2, lm2⟩ rel dd fs := by
    intro rel dd fs
    induction fs generalizing dd with
    | nil => rfl
    | cons f rest ih => simp only [fileChecks, ih]
  have hv : ∀ ed ids sys rel dev ino kids,
      planVisit ⟨w, top, dev?, h1, lm1⟩ ed ids sys rel dev ino kids = planVisit ⟨w, top, dev?, h2, lm2⟩ ed ids sys rel dev ino kids := by
    intro ed ids sys rel dev ino kids
    simp only [planVisit, hfc]
  refine Node.rec
    (motive_1 := fun n => ∀ (ed : EntryDict) (ids : Ids) (sys rel : Str),
      planDir ⟨w, top, dev?, h1, lm1⟩ ed ids sys rel n = planDir ⟨w, top, dev?, h2, lm2⟩ ed ids sys rel n)
    (motive_2 := fun kids => ∀ (ed : EntryDict) (ids : Ids) (sys rel : Str) (keep : List Str),
      planKids ⟨w, top, dev?, h1, lm1⟩ ed ids sys rel keep kids = planKids ⟨w, top, dev?, h2, lm2⟩ ed ids sys rel keep kids)
    (motive_3 := fun p => ∀ (ed : EntryDict) (ids : Ids) (sys rel : Str),
      planDir ⟨w, top, dev?, h1, lm1⟩ ed ids sys rel p.2 = planDir ⟨w, top, dev?, h2, lm2⟩ ed ids sys rel p.2)
    ?_ ?_ ?_ ?_ ?_ ?_ ?_ ?_ n
  · intro m ed ids sys rel; rfl
  · intro dev ino kids ih ed ids sys rel
    simp only [planDir, hv]
    cases planVisit ⟨w, top, dev?, h2, lm2⟩ ed ids sys rel dev ino kids with
    | error e => rfl
    | ok r => obtain ⟨a, b, c, k⟩ := r; simp only [ih]
  · intro d ed ids sys rel; rfl
  · intro ed ids sys rel; rfl
  · intro code asDir ed ids sys rel; cases asDir <;> rfl
  · intro ed ids sys rel keep; rfl
  · intro hd tl ihh iht ed ids sys rel keep
    obtain ⟨nm, ch⟩ := hd
    simp only [planKids, ihh]
    split
    · cases planDir ⟨w, top, dev?, h2, lm2⟩ ed ids (pjoin sys nm) (relJoin rel nm) ch with
      | error e => rfl
      | ok r => obtain ⟨a, b, c⟩ := r; simp only [iht]
    · exact iht ed ids sys rel keep
  · intro nm ch ih ed ids sys rel; exact ih ed ids sys rel

/-! ## What the plan lists -/

theorem ddGet_filter_ne (dd : List (Str × Entry)) (f g : Str) (h : (g == f) = false) :
    ddGet (dd.filter (·.1 != g)) f = ddGet dd f := by
  unfold ddGet
  congr 1
  induction dd with
  | nil => rfl
  | cons x rest ih =>
    cases hx : (x.1 != g) with
    | true =>
      simp only [List.filter, hx, List.find?]
      cases (x.1 == f) <;> simp [ih]
    | false =>
      have hxg : x.1 = g := by simpa using hx
      have : (x.1 == f) = false := by rw [hxg]; exact h
      simp only [List.filter, hx, List.find?, this]
      exact ih

/-- **every object found is checked against the entry the dictionary holds for it** (or against none: a stray):
    a visible name of the directory that is not the top-level Manifest appears in the plan with `ddGet dd f` -/
theorem plan_lists_found_file (c : VCfg) (rel : Str) (fs : List Str) (hnd : fs.Nodup) : ∀ (dd : List (Str × Entry)) (f : Str),
    f ∈ fs → isHidden f = false → (relJoin rel f == c.topName) = false →
    (relJoin rel f, ddGet dd f) ∈ (fileChecks c rel dd fs).1 := by
  induction fs with
  | nil => intro dd f h; cases h
  | cons g rest ih =>
    intro dd f hf hh ht
    have hnd' := (List.nodup_cons.mp hnd)
    simp only [fileChecks]
    rcases List.mem_cons.mp hf with rfl | hr
    · simp [hh, ht]
    · have hne : (g == f) = false := by
        have : g ≠ f := fun he => hnd'.1 (he ▸ hr)
        simpa using this
      split
      · exact ih hnd'.2 dd f hr hh ht
      · split
        · exact ih hnd'.2 dd f hr hh ht
        · simp only [List.mem_cons]
          right
          have := ih hnd'.2 (dd.filter (·.1 != g)) f hr hh ht
          rwa [ddGet_filter_ne dd f g hne] at this

/-- **every entry of the directory that no found object consumed is checked as a left-over** (a listed file that is
    missing, an entry for a hidden name, an entry naming a sub-directory) -/
theorem plan_lists_leftover_entry (c : VCfg) (rel : Str) (fs : List Str) : ∀ (dd : List (Str × Entry)) (nm : Str) (e : Entry),
    (nm, e) ∈ dd → (∀ f ∈ fs, isHidden f = false → (relJoin rel f == c.topName) = false → f ≠ nm) →
    (nm, e) ∈ (fileChecks c rel dd fs).2 := by
  induction fs with
  | nil => intro dd nm e h _; exact h
  | cons g rest ih =>
    intro dd nm e h hfs
    simp only [fileChecks]
    split
    · exact ih dd nm e h (fun f hf => hfs f (List.mem_cons_of_mem _ hf))
    · split
      · exact ih dd nm e h (fun f hf => hfs f (List.mem_cons_of_mem _ hf))
      · rename_i hh ht
        have hgn : g ≠ nm := hfs g List.mem_cons_self (by simpa using hh) (by simpa using ht)
        apply ih
        · simp only [List.mem_filter]
          refine ⟨h, ?_⟩
          simp only [bne_iff_ne, ne_eq]
          exact fun he => hgn he.symm
        · exact fun f hf => hfs f (List.mem_cons_of_mem _ hf)

/-- **hidden names and the top-level Manifest are never checked as found objects** -/
theorem plan_skips_hidden_and_top (c : VCfg) (rel : Str) (fs : List Str) : ∀ (dd : List (Str × Entry)) (pe : Check),
    pe ∈ (fileChecks c rel dd fs).1 → ∃ f ∈ fs, pe.1 = relJoin rel f ∧ isHidden f = false ∧ (relJoin rel f == c.topName) = false := by
  induction fs with
  | nil => intro dd pe h; cases h
  | cons g rest ih =>
    intro dd pe h
    simp only [fileChecks] at h
    split at h
    · obtain ⟨f, hf, r⟩ := ih dd pe h; exact ⟨f, List.mem_cons_of_mem _ hf, r⟩
    · split at h
      · obtain ⟨f, hf, r⟩ := ih dd pe h; exact ⟨f, List.mem_cons_of_mem _ hf, r⟩
      · rename_i hh ht
        rcases List.mem_cons.mp h with rfl | hr
        · exact ⟨g, List.mem_cons_self, rfl, by simpa using hh, by simpa using ht⟩
        · obtain ⟨f, hf, r⟩ := ih _ pe hr; exact ⟨f, List.mem_cons_of_mem _ hf, r⟩

/-! ## Non-vacuity -/

/-- a tree with a listed file, a stray, a hidden file, a missing listed file and an entry in a directory that does
    not exist: the plan lists the four checks, verification with the raising handler fails on the first stray -/
example :
    let f (sz : Nat) : Node := .file ⟨1, sz, sz, 0, [], none⟩
    let m : Str := [68, 65, 84, 65, 32, 97, 32, 49, 10,             -- DATA a 1
                    68, 65, 84, 65, 32, 103, 32, 49, 10,            -- DATA g 1      (missing)
                    68, 65, 84, 65, 32, 120, 47, 121, 32, 49, 10]   -- DATA x/y 1    (directory x does not exist)
    let kids : List (Str × Node) := [([77], .file ⟨1, 29, 29, 0, [], some (.text m)⟩), ([97], f 1), ([115], f 1), ([46, 104], f 1)]
    let w : World := ⟨.dir 1 1 kids⟩
    let ed : EntryDict := [([], [([97], .file .DATA [97] 1 []), ([103], .file .DATA [103] 1 [])]), ([120], [([121], .file .DATA [120, 47, 121] 1 [])])]
    (match planDir ⟨w, [77], none, .raise, none⟩ ed [] sysRoot [] w.root with
     | .ok r => (r.2.2.map (·.1), (missingChecks r.1).map (·.1)) == ([[97], [115], [103]], [[120, 47, 121]])
     | .error _ => false) = true := by
  decide +kernel

end Gemato.C01
