import Gemato.Model.Save
import Gemato.Proofs.Cks
/-
  C12 — Update is idempotent and, with sorting, canonical.
  Proved: change detection is exact (an entry that already describes the file is
  reported unchanged, so nothing is queued for it), and a sorted dump is a
  function of the *set* of entries (any two orders of the same entries with
  pairwise distinct sort keys sort to the same list). The global statement
  "a second update writes nothing" is decided by the correspondence runs.
-/
namespace Gemato.C12
open Gemato.L1 Gemato.U

/-- **change detection is exact**: when the file is hashed, a change is reported
    iff the size or the checksum dict really differ from the fresh values, and an
    unchanged entry is returned as it was -/
theorem C12_change_detection_exact (m : FileMeta) (p : Str) (t : FTag) (q : Str) (n : Nat) (c : List (Str × Str))
    (hs : List Str) (dev : Option Nat) (newCks : List (Str × Str))
    (hd : devBad dev m.dev = false) (hf : freshCks m hs = .ok newCks) (hst : m.stSize = 0 ∨ m.stSize = m.size) :
    refreshEntry (.file m) p (.file t q n c) (some hs) dev none =
      if n = m.size ∧ c = newCks then .ok (.file t q n c, false) else .ok (.file t q m.size newCks, true) := by
  have hskip : mtimeSkip m none = false := rfl
  have hass : (m.stSize != 0 && m.stSize != m.size) = false := by
    rcases hst with h | h <;> simp [h]
  simp only [refreshEntry, hd, Bool.false_eq_true, if_false, hskip, Bool.false_and, Option.getD_some, hf, hass]
  by_cases h1 : n = m.size
  · by_cases h2 : c = newCks
    · simp [h1, h2]
    · simp [h1, h2]
  · simp [h1]

/-- … hence an entry that is already what a refresh would produce queues nothing -/
theorem C12_exact_entry_unchanged (m : FileMeta) (p : Str) (t : FTag) (q : Str) (hs : List Str) (dev : Option Nat)
    (newCks : List (Str × Str)) (hd : devBad dev m.dev = false) (hf : freshCks m hs = .ok newCks)
    (hst : m.stSize = 0 ∨ m.stSize = m.size) :
    refreshEntry (.file m) p (.file t q m.size newCks) (some hs) dev none = .ok (.file t q m.size newCks, false) := by
  rw [C12_change_detection_exact m p t q m.size newCks hs dev newCks hd hf hst]; simp

-- sorted dump is canonical ---------------------------------------------------------------

variable {α : Type}

/-- `a ≤ b` in terms of the strict order the sort uses -/
def le (lt : α → α → Bool) (a b : α) : Prop := lt b a = false

theorem insertSorted_perm (lt : α → α → Bool) (x : α) (l : List α) : (insertSorted lt x l).Perm (x :: l) := by
  induction l with
  | nil => simp [insertSorted]
  | cons y ys ih =>
    simp only [insertSorted]
    split
    · exact (List.Perm.cons y ih).trans (List.Perm.swap x y ys)
    · exact List.Perm.refl _

theorem stableSort_perm (lt : α → α → Bool) (l : List α) : (stableSort lt l).Perm l := by
  induction l with
  | nil => simp [stableSort]
  | cons x xs ih =>
    have : stableSort lt (x :: xs) = insertSorted lt x (stableSort lt xs) := rfl
    rw [this]
    exact (insertSorted_perm lt x _).trans (List.Perm.cons x ih)

theorem insertSorted_sorted (lt : α → α → Bool)
    (hasymm : ∀ a b, lt a b = true → lt b a = false)
    (htrans : ∀ a b c, le lt a b → le lt b c → le lt a c)
    (x : α) (l : List α) (h : l.Pairwise (le lt)) : (insertSorted lt x l).Pairwise (le lt) := by
  induction l with
  | nil => simp [insertSorted]
  | cons y ys ih =>
    have hy := List.pairwise_cons.mp h
    simp only [insertSorted]
    split
    · rename_i hlt
      refine List.pairwise_cons.mpr ⟨?_, ih hy.2⟩
      intro z hz
      have hz' := (insertSorted_perm lt x ys).subset hz
      simp at hz'
      rcases hz' with rfl | hz'
      · exact hasymm y z hlt
      · exact hy.1 z hz'
    · rename_i hnlt
      have hxy : le lt x y := by simpa [le] using hnlt
      refine List.pairwise_cons.mpr ⟨?_, h⟩
      intro z hz
      simp at hz
      rcases hz with rfl | hz
      · exact hxy
      · exact htrans x y z hxy (hy.1 z hz)

theorem stableSort_sorted (lt : α → α → Bool)
    (hasymm : ∀ a b, lt a b = true → lt b a = false)
    (htrans : ∀ a b c, le lt a b → le lt b c → le lt a c) (l : List α) :
    (stableSort lt l).Pairwise (le lt) := by
  induction l with
  | nil => simp [stableSort]
  | cons x xs ih => exact insertSorted_sorted lt hasymm htrans x _ ih

/-- **canonical order.** For a strict weak order, any two arrangements of the same
    entries whose sort keys are pairwise distinct sort to the same list — the
    written order does not depend on the order the walk returned names in, nor
    on the order of the entries in the previous Manifest. -/
theorem C12_sort_canonical (lt : α → α → Bool)
    (hasymm : ∀ a b, lt a b = true → lt b a = false)
    (htrans : ∀ a b c, le lt a b → le lt b c → le lt a c)
    (l1 l2 : List α) (hperm : l1.Perm l2)
    (hdistinct : ∀ a b, a ∈ l1 → b ∈ l1 → lt a b = false → lt b a = false → a = b) :
    stableSort lt l1 = stableSort lt l2 := by
  apply List.Perm.eq_of_pairwise (le := le lt)
  · intro a b ha hb h1 h2
    have ha' : a ∈ l1 := (stableSort_perm lt l1).subset ha
    have hb' : b ∈ l1 := hperm.symm.subset ((stableSort_perm lt l2).subset hb)
    exact hdistinct a b ha' hb' h2 h1
  · exact stableSort_sorted lt hasymm htrans l1
  · exact stableSort_sorted lt hasymm htrans l2
  · exact (stableSort_perm lt l1).trans (hperm.trans (stableSort_perm lt l2).symm)

-- the entry order is such a strict weak order -------------------------------------------------

/-- the sort key of an entry: (tag, path) — for TIMESTAMP (tag, time) -/
def key (e : Entry) : Str × Str :=
  (e.tagName, match e with
    | .timestamp t => [t.year, t.month, t.day, t.hour, t.minute, t.second]
    | _ => e.fullPath)

def lexLt (a b : Str × Str) : Bool := strLt a.1 b.1 || (a.1 == b.1 && strLt a.2 b.2)

theorem ftag_ne_ts (t : FTag) : (t.name == sTIMESTAMP) = false ∧ (sTIMESTAMP == t.name) = false ∧
    (t.name == sIGNORE) = false ∧ (sIGNORE == t.name) = false := by cases t <;> decide

theorem entryLt_eq_lex (a b : Entry) : entryLt a b = lexLt (key a) (key b) := by
  cases a <;> cases b <;>
    simp [entryLt, lexLt, key, Entry.tagName, tsLt, ftag_ne_ts,
      show (sTIMESTAMP == sIGNORE) = false by decide, show (sIGNORE == sTIMESTAMP) = false by decide]

theorem lexLt_asymm (a b : Str × Str) (h : lexLt a b = true) : lexLt b a = false := by
  simp only [lexLt, Bool.or_eq_true, Bool.and_eq_true, beq_iff_eq] at h
  simp only [lexLt, Bool.or_eq_false_iff, Bool.and_eq_false_iff]
  rcases h with h | ⟨e, h⟩
  · refine ⟨strLt_asymm _ _ h, Or.inl ?_⟩
    simp only [beq_eq_false_iff_ne, ne_eq]
    intro e; exact strLt_ne _ _ h e.symm
  · refine ⟨by rw [e]; exact strLt_irrefl _, Or.inr (strLt_asymm _ _ h)⟩

theorem lexLe_trans (a b c : Str × Str) (h1 : lexLt b a = false) (h2 : lexLt c b = false) : lexLt c a = false := by
  simp only [lexLt, Bool.or_eq_false_iff, Bool.and_eq_false_iff, beq_eq_false_iff_ne, ne_eq] at *
  obtain ⟨h1a, h1b⟩ := h1
  obtain ⟨h2a, h2b⟩ := h2
  -- first components: ¬ b1<a1, ¬ c1<b1
  by_cases e1 : b.1 = a.1
  · by_cases e2 : c.1 = b.1
    · -- all first components equal: compare the second ones
      have s1 : strLt b.2 a.2 = false := by rcases h1b with h | h; exact absurd e1 h; exact h
      have s2 : strLt c.2 b.2 = false := by rcases h2b with h | h; exact absurd e2 h; exact h
      refine ⟨by rw [e2, e1]; exact strLt_irrefl _, Or.inr ?_⟩
      by_cases e3 : c.2 = b.2
      · rw [e3]; exact s1
      · by_cases e4 : b.2 = a.2
        · rw [← e4]; exact s2
        · have l1 := strLt_total b.2 a.2 s1 e4
          have l2 := strLt_total c.2 b.2 s2 e3
          exact strLt_asymm _ _ (strLt_trans _ _ _ l1 l2)
    · have l2 := strLt_total c.1 b.1 h2a e2
      rw [e1] at l2
      refine ⟨strLt_asymm _ _ l2, Or.inl ?_⟩
      intro e; rw [e] at l2; rw [strLt_irrefl] at l2; cases l2
  · have l1 := strLt_total b.1 a.1 h1a e1
    by_cases e2 : c.1 = b.1
    · rw [← e2] at l1
      refine ⟨strLt_asymm _ _ l1, Or.inl ?_⟩
      intro e; rw [e] at l1; rw [strLt_irrefl] at l1; cases l1
    · have l2 := strLt_total c.1 b.1 h2a e2
      have l3 := strLt_trans _ _ _ l1 l2
      refine ⟨strLt_asymm _ _ l3, Or.inl ?_⟩
      intro e; rw [e] at l3; rw [strLt_irrefl] at l3; cases l3

/-- **C12 (canonical Manifests).** Sorting entries with the writer's order gives
    the same list for every arrangement of the same entries, provided no two of
    them share (tag, path) — which holds with at most one entry per path and tag. -/
theorem C12_canonical (l1 l2 : List Entry) (hperm : l1.Perm l2)
    (hdistinct : ∀ a b, a ∈ l1 → b ∈ l1 → key a = key b → a = b) :
    stableSort entryLt l1 = stableSort entryLt l2 := by
  apply C12_sort_canonical entryLt
  · intro a b h; rw [entryLt_eq_lex] at *; exact lexLt_asymm _ _ h
  · intro a b c h1 h2; simp only [le, entryLt_eq_lex] at *; exact lexLe_trans _ _ _ h1 h2
  · exact hperm
  · intro a b ha hb h1 h2
    apply hdistinct a b ha hb
    rw [entryLt_eq_lex] at h1 h2
    simp only [lexLt, Bool.or_eq_false_iff, Bool.and_eq_false_iff, beq_eq_false_iff_ne, ne_eq] at h1 h2
    have e1 : (key a).1 = (key b).1 := by
      by_cases e : (key a).1 = (key b).1
      · exact e
      · exact absurd (strLt_total _ _ h1.1 e) (by rw [h2.1]; simp)
    have e2 : (key a).2 = (key b).2 := by
      have s1 : strLt (key a).2 (key b).2 = false := by rcases h1.2 with h | h; exact absurd e1 h; exact h
      have s2 : strLt (key b).2 (key a).2 = false := by rcases h2.2 with h | h; exact absurd e1.symm h; exact h
      by_cases e : (key a).2 = (key b).2
      · exact e
      · exact absurd (strLt_total _ _ s1 e) (by rw [s2]; simp)
    exact Prod.ext e1 e2

end Gemato.C12
