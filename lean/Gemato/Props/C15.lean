import Gemato.Model.FindTop
import Gemato.Proofs.Path
/-
  C15 — Top-level Manifest discovery returns the outermost covering Manifest.
  For chains of directories of any length.
-/
namespace Gemato.C15
open Gemato.FT Gemato.L1

/-- **C15 (outermost covering Manifest).** If discovery returns normally, it
    returns the outermost Manifest reachable by walking upward without passing
    a stopping level, or the previously found one / nothing if there is none;
    levels without a Manifest are passed through. -/
theorem climb_eq (allowXdev : Bool) (dev0 : Nat) (idx : Nat) (last : Option (Nat × Str)) (lvs : List Level)
    (r : Option (Nat × Str)) (h : climb allowXdev dev0 idx last lvs = .ok r) :
    r = (match outermost allowXdev dev0 idx lvs with | some x => some x | none => last) := by
  induction lvs generalizing idx last with
  | nil => simp [climb] at h; simp [outermost, h]
  | cons lv rest ih =>
    simp only [climb] at h
    by_cases h1 : (idx != 0 && lv.dev != dev0 && !allowXdev) = true
    · simp only [h1, if_true, Except.ok.injEq] at h
      simp [outermost, stopsAt, h1, h]
    · simp only [h1, Bool.false_eq_true, if_false] at h
      cases hs : scanLevel allowXdev dev0 lv.rel lv.cands with
      | raise e => simp [hs] at h
      | stop =>
        simp only [hs, Except.ok.injEq] at h
        simp [outermost, stopsAt, hs, h]
      | next found =>
        simp only [hs] at h
        have hstop : stopsAt allowXdev dev0 idx lv = false := by
          simp only [stopsAt, hs, Bool.or_false]
          simpa using h1
        by_cases hr : lv.isRoot = true
        · simp only [hr, if_true, Except.ok.injEq] at h
          simp only [outermost, hstop, Bool.false_eq_true, if_false, taken, hs, hr, if_true]
          cases found <;> simp [← h]
        · simp only [hr, Bool.false_eq_true, if_false] at h
          have := ih (idx + 1) _ h
          simp only [outermost, hstop, Bool.false_eq_true, if_false, taken, hs, hr]
          rw [this]
          cases outermost allowXdev dev0 (idx + 1) rest <;> cases found <;> simp

theorem C15_outermost (allowXdev : Bool) (l0 : Level) (rest : List Level) (r : Option (Nat × Str))
    (h : findTop allowXdev (l0 :: rest) = .ok r) : r = outermost allowXdev l0.dev 0 (l0 :: rest) := by
  have := climb_eq allowXdev l0.dev 0 none (l0 :: rest) r h
  rw [this]; cases outermost allowXdev l0.dev 0 (l0 :: rest) <;> rfl

/-- with crossing disallowed, nothing on another device is ever returned -/
theorem scan_next_dev (dev0 : Nat) (rel : Str) (cs : List (Str × Cand)) (nm : Str)
    (h : scanLevel false dev0 rel cs = .next (some nm)) : ∃ es, (nm, Cand.present dev0 es) ∈ cs := by
  induction cs with
  | nil => simp [scanLevel] at h
  | cons c cs ih =>
    obtain ⟨n, cd⟩ := c
    cases cd with
    | absent =>
      simp only [scanLevel] at h
      obtain ⟨es, hes⟩ := ih h
      exact ⟨es, by simp [hes]⟩
    | broken e => simp [scanLevel] at h
    | present fdev es =>
      simp only [scanLevel] at h
      by_cases hd : fdev = dev0
      · subst hd
        simp only [bne_self_eq_false, Bool.false_and, Bool.false_eq_true, if_false] at h
        split at h
        · cases h
        · cases h; exact ⟨es, by simp⟩
      · have : (fdev != dev0) = true := by simpa using hd
        simp [this] at h

theorem C15_no_foreign_device (dev0 : Nat) (lv : Level) (nm : Str) (h : taken false dev0 lv = some nm) :
    ∃ es, (nm, Cand.present dev0 es) ∈ lv.cands := by
  unfold taken at h
  cases hs : scanLevel false dev0 lv.rel lv.cands with
  | raise e => simp [hs] at h
  | stop => simp [hs] at h
  | next f => simp only [hs] at h; subst h; exact scan_next_dev dev0 lv.rel lv.cands nm hs

/-- a Manifest whose first matching entry for the starting path is an IGNORE
    stops the walk at its level -/
theorem C15_ignore_stops (allowXdev : Bool) (dev0 : Nat) (nm rel q : Str) (es : List Entry) (rest : List (Str × Cand))
    (hdev : (dev0 != dev0 && !allowXdev) = false) (h : findPathEntry es rel = some (.ignore q)) :
    scanLevel allowXdev dev0 rel ((nm, .present dev0 es) :: rest) = .stop := by
  simp [scanLevel, h]

/-- IGNORE matches the starting path by whole components: a look-alike sibling
    name does not stop the walk -/
theorem C15_ignore_lookalike (d rest : Str) (c : Nat) (hne : d ≠ []) (hns : d.getLast? ≠ some slash) (hc : c ≠ slash) :
    findPathEntry [.ignore d] (d ++ c :: rest) = none ∧ findPathEntry [.ignore d] (d ++ slash :: rest) = some (.ignore d) := by
  constructor
  · simp [findPathEntry, List.find?, pathStartsWith_lookalike d c rest hne hns hc]
  · have := (pathStartsWith_iff (d ++ slash :: rest) d hne hns).mpr (Or.inr ⟨rest, rfl⟩)
    simp [findPathEntry, List.find?, this]

/-- compressed Manifests are considered only when allowed: what is returned is
    one of the candidate names offered at that level -/
theorem C15_only_offered_names (allowXdev : Bool) (dev0 : Nat) (rel : Str) (cs : List (Str × Cand)) (nm : Str)
    (h : scanLevel allowXdev dev0 rel cs = .next (some nm)) : nm ∈ cs.map (·.1) := by
  induction cs with
  | nil => simp [scanLevel] at h
  | cons c cs ih =>
    obtain ⟨n, cd⟩ := c
    cases cd with
    | absent => simp only [scanLevel] at h; simp [ih h]
    | broken e => simp [scanLevel] at h
    | present fdev es =>
      simp only [scanLevel] at h
      split at h
      · cases h
      · split at h
        · cases h
        · cases h; simp

end Gemato.C15
