import Gemato.Model.Save
/-
  C03 — Update writes Manifests that describe the tree exactly and then verify.
  Theorems about the entry refresh (`update_entry_for_path`) and the save order.
  The full statement (every file below the path covered exactly once, after the
  whole update+save) is decided by the correspondence runs, not by a theorem:
  see `C03_full` below for what remains unproved.
-/
namespace Gemato.C03
open Gemato.L1 Gemato.U

/-- the entry describes the file exactly for the requested hash names -/
structure ExactFor (m : FileMeta) (hs : List Str) (e : Entry) : Prop where
  size_true : e.size? = some m.size
  names : ∀ h, h ∈ hs ↔ h ∈ e.cks.map (·.1)
  digests_true : ∀ kv ∈ e.cks, (m.digests.find? (·.1 == kv.1)).map (·.2) = some kv.2
  supported : ∀ kv ∈ e.cks, (Hash.hashlibName? kv.1).isSome

theorem ckInsert_mem_iff (k v : Str) (acc : List (Str × Str)) (p : Str × Str) :
    p ∈ ckInsert k v acc → p = (k, v) ∨ p ∈ acc := by
  induction acc with
  | nil => simp [ckInsert]
  | cons q acc ih =>
    obtain ⟨k', v'⟩ := q
    simp only [ckInsert]
    split
    · intro hp
      rcases List.mem_cons.mp hp with h | h
      · exact Or.inl h
      · exact Or.inr (List.mem_cons_of_mem _ h)
    · split
      · intro hp
        rcases List.mem_cons.mp hp with h | h
        · exact Or.inl h
        · exact Or.inr h
      · intro hp
        rcases List.mem_cons.mp hp with h | h
        · exact Or.inr (by rw [h]; exact List.mem_cons_self)
        · rcases ih h with h1 | h1
          · exact Or.inl h1
          · exact Or.inr (List.mem_cons_of_mem _ h1)

theorem ckInsert_has_key (k v : Str) (acc : List (Str × Str)) : k ∈ (ckInsert k v acc).map (·.1) := by
  induction acc with
  | nil => simp [ckInsert]
  | cons q acc ih =>
    obtain ⟨k', v'⟩ := q
    simp only [ckInsert]
    split
    · simp
    · split
      · simp
      · simp only [List.map_cons, List.mem_cons]; exact Or.inr ih

theorem ckInsert_keeps_keys (k v : Str) (acc : List (Str × Str)) (x : Str) (hx : x ∈ acc.map (·.1)) :
    x ∈ (ckInsert k v acc).map (·.1) := by
  induction acc with
  | nil => simp at hx
  | cons q acc ih =>
    obtain ⟨k', v'⟩ := q
    simp only [ckInsert]
    split
    · rename_i hk; subst hk; simpa using hx
    · split
      · simp only [List.map_cons, List.mem_cons] at hx ⊢; exact Or.inr hx
      · simp only [List.map_cons, List.mem_cons] at hx ⊢
        rcases hx with h | h
        · exact Or.inl h
        · exact Or.inr (ih h)

/-- what the fold of `freshCks` builds: every pair is a true digest of a requested name, and every
    requested name is present -/
theorem fresh_fold (m : FileMeta) (hs : List Str) (acc : List (Str × Str))
    (hall : ∀ h ∈ hs, (m.digests.find? (·.1 == h)).isSome) :
    let r := hs.foldl (fun acc h => match m.digests.find? (·.1 == h) with
      | some (_, v) => ckInsert h v acc
      | none => acc) acc
    (∀ kv ∈ r, kv ∈ acc ∨ (kv.1 ∈ hs ∧ (m.digests.find? (·.1 == kv.1)).map (·.2) = some kv.2)) ∧
    (∀ h ∈ hs, h ∈ r.map (·.1)) ∧ (∀ x ∈ acc.map (·.1), x ∈ r.map (·.1)) := by
  induction hs generalizing acc with
  | nil => simp
  | cons h hs ih =>
    simp only [List.foldl_cons]
    have hh := hall h (by simp)
    cases hf : m.digests.find? (·.1 == h) with
    | none => simp [hf] at hh
    | some p =>
      obtain ⟨k, v⟩ := p
      simp only
      obtain ⟨i1, i2, i3⟩ := ih (ckInsert h v acc) (fun x hx => hall x (by simp [hx]))
      refine ⟨?_, ?_, ?_⟩
      · intro kv hkv
        rcases i1 kv hkv with h1 | ⟨h1, h2⟩
        · rcases ckInsert_mem_iff h v acc kv h1 with e | e
          · right; subst e; exact ⟨by simp, by simp [hf]⟩
          · exact Or.inl e
        · exact Or.inr ⟨by simp [h1], h2⟩
      · intro x hx
        simp at hx
        rcases hx with rfl | hx
        · exact i3 x (ckInsert_has_key x v acc)
        · exact i2 x hx
      · intro x hx
        exact i3 x (ckInsert_keeps_keys h v acc x hx)

/-- **refresh makes the entry exact.** Whenever `update_entry_for_path` hashes the
    file (no mtime skip), the entry afterwards carries the file's true size and
    exactly the requested hash names with the file's true digests. -/
theorem freshCks_spec (m : FileMeta) (hs : List Str) (cks : List (Str × Str)) (h : freshCks m hs = .ok cks) :
    (∀ x, x ∈ hs ↔ x ∈ cks.map (·.1)) ∧
    (∀ kv ∈ cks, (m.digests.find? (·.1 == kv.1)).map (·.2) = some kv.2) ∧
    (∀ kv ∈ cks, (Hash.hashlibName? kv.1).isSome) := by
  unfold freshCks at h
  split at h
  · cases h
  · rename_i hsup
    split at h
    · cases h
    · rename_i hav
      simp only [Except.ok.injEq] at h
      have hsup0 : hs.any (fun h => (Hash.hashlibName? h).isNone) = false := by
        cases hq : hs.any (fun h => (Hash.hashlibName? h).isNone) with
        | false => rfl
        | true => exact absurd hq hsup
      have hav0 : hs.any (fun h => (m.digests.find? (·.1 == h)).isNone) = false := by
        cases hq : hs.any (fun h => (m.digests.find? (·.1 == h)).isNone) with
        | false => rfl
        | true => exact absurd hq hav
      have hsup' : ∀ x ∈ hs, (Hash.hashlibName? x).isSome := by
        intro x hx
        have := List.any_eq_false.mp hsup0 x hx
        cases hh : Hash.hashlibName? x with
        | none => simp [hh] at this
        | some _ => rfl
      have hav' : ∀ x ∈ hs, (m.digests.find? (·.1 == x)).isSome := by
        intro x hx
        have := List.any_eq_false.mp hav0 x hx
        cases hh : m.digests.find? (·.1 == x) with
        | none => simp [hh] at this
        | some _ => rfl
      obtain ⟨f1, f2, _⟩ := fresh_fold m hs [] hav'
      subst h
      refine ⟨?_, ?_, ?_⟩
      · intro x
        constructor
        · exact f2 x
        · intro hx
          simp only [List.mem_map] at hx
          obtain ⟨kv, hkv, rfl⟩ := hx
          rcases f1 kv hkv with h0 | ⟨h1, _⟩
          · simp at h0
          · exact h1
      · intro kv hkv
        rcases f1 kv hkv with h0 | ⟨_, h2⟩
        · simp at h0
        · exact h2
      · intro kv hkv
        rcases f1 kv hkv with h0 | ⟨h1, _⟩
        · simp at h0
        · exact hsup' kv.1 h1

/-- **refresh makes the entry exact.** Whenever `update_entry_for_path` hashes the
    file (no mtime skip), the entry afterwards carries the file's true size and
    exactly the requested hash names with the file's true digests. -/
theorem C03_refresh_exact (m : FileMeta) (p : Str) (t : FTag) (q : Str) (n : Nat) (c : List (Str × Str))
    (hs : List Str) (dev : Option Nat) (e' : Entry) (b : Bool)
    (h : refreshEntry (.file m) p (.file t q n c) (some hs) dev none = .ok (e', b)) : ExactFor m hs e' := by
  simp only [refreshEntry] at h
  split at h
  · cases h
  · have hskip : mtimeSkip m none = false := rfl
    simp only [hskip, Bool.false_and, Bool.false_eq_true, if_false, Option.getD_some] at h
    cases hf : freshCks m hs with
    | error err => simp [hf] at h
    | ok newCks =>
      obtain ⟨s1, s2, s3⟩ := freshCks_spec m hs newCks hf
      have key : ExactFor m hs (.file t q m.size newCks) := ⟨rfl, s1, s2, s3⟩
      simp only [hf] at h
      split at h
      · cases h
      · split at h
        · cases h; exact key
        · rename_i hne
          cases h
          simp only [bne_iff_ne, ne_eq, Bool.or_eq_true, not_or, Decidable.not_not] at hne
          obtain ⟨h1, h2⟩ := hne
          rw [h1, h2]; exact key

/-- **… and then verifies.** An entry that is exact for a file whose apparent
    size is sound verifies against it. -/
theorem C03_exact_verifies (m : FileMeta) (hs : List Str) (p : Str) (t : FTag) (q : Str) (n : Nat)
    (c : List (Str × Str)) (hst : m.stSize = 0 ∨ m.stSize = m.size) (hx : ExactFor m hs (.file t q n c)) :
    verifyObj (.file m) p (some (.file t q n c)) none none = .ok true := by
  have hn : n = m.size := by have := hx.size_true; simpa [Entry.size?] using this
  subst hn
  have e1 : c.any (fun kv => (Hash.hashlibName? kv.1).isNone) = false := by
    simp only [List.any_eq_false]
    intro kv hkv; have := hx.supported kv hkv; cases hh : Hash.hashlibName? kv.1 <;> simp_all
  have e2 : c.any (fun kv => (m.digests.find? (·.1 == kv.1)).isNone) = false := by
    simp only [List.any_eq_false]
    intro kv hkv; have := hx.digests_true kv (by simpa [Entry.cks] using hkv)
    cases hh : m.digests.find? (·.1 == kv.1) <;> simp_all
  have e3 : c.all (fun kv => (m.digests.find? (·.1 == kv.1)).map (·.2) == some kv.2) = true := by
    simp only [List.all_eq_true]
    intro kv hkv; have := hx.digests_true kv (by simpa [Entry.cks] using hkv); simp [this]
  simp only [verifyObj, devBad, Bool.false_eq_true, if_false, fileCheck, mtimeSkip, digestsMatch, e1, e2, e3]
  rcases hst with h0 | h0
  · simp [h0]
  · simp [h0]

/-- the order `save_manifests` visits Manifests in is deepest directory first:
    a parent's MANIFEST entry is refreshed after every Manifest of a deeper
    directory has been written -/
theorem insertSorted_pairwise (key : α → Nat) (x : α) (l : List α)
    (h : l.Pairwise fun a b => key a ≥ key b) :
    (insertSorted (fun a b => decide (key a > key b)) x l).Pairwise fun a b => key a ≥ key b := by
  induction l with
  | nil => simp [insertSorted]
  | cons y ys ih =>
    simp only [insertSorted]
    have hy := List.pairwise_cons.mp h
    split
    · rename_i hlt
      simp only [decide_eq_true_eq] at hlt
      refine List.pairwise_cons.mpr ⟨?_, ih hy.2⟩
      intro z hz
      have : z = x ∨ z ∈ ys := by
        clear ih
        induction ys with
        | nil => simp [insertSorted] at hz; exact Or.inl hz
        | cons w ws ihw =>
          simp only [insertSorted] at hz
          split at hz
          · simp at hz; rcases hz with rfl | hz
            · exact Or.inr (by simp)
            · rcases ihw (List.pairwise_cons.mpr ⟨fun a ha => hy.1 a (by simp [ha]), (List.pairwise_cons.mp hy.2).2⟩)
                ⟨fun a ha => hy.1 a (by simp [ha]), (List.pairwise_cons.mp hy.2).2⟩ hz with e | e
              · exact Or.inl e
              · exact Or.inr (by simp [e])
          · simp at hz; rcases hz with rfl | rfl | hz
            · exact Or.inl rfl
            · exact Or.inr (by simp)
            · exact Or.inr (by simp [hz])
      rcases this with rfl | hz'
      · omega
      · exact hy.1 z hz'
    · rename_i hnlt
      simp only [decide_eq_true_eq, Nat.not_lt] at hnlt
      refine List.pairwise_cons.mpr ⟨?_, h⟩
      intro z hz
      simp at hz
      rcases hz with rfl | hz
      · exact hnlt
      · have := hy.1 z hz; omega

theorem insertSorted_mem_iff {α} (lt : α → α → Bool) (x y : α) (l : List α) : y ∈ insertSorted lt x l ↔ y = x ∨ y ∈ l := by
  induction l with
  | nil => simp [insertSorted]
  | cons z zs ih =>
    simp only [insertSorted]
    split
    · simp [ih]
      constructor
      · rintro (h | h | h)
        · exact Or.inr (Or.inl h)
        · exact Or.inl h
        · exact Or.inr (Or.inr h)
      · rintro (h | h | h)
        · exact Or.inr (Or.inl h)
        · exact Or.inl h
        · exact Or.inr (Or.inr h)
    · simp

theorem stableSort_mem_iff {α} (lt : α → α → Bool) (y : α) (l : List α) : y ∈ stableSort lt l ↔ y ∈ l := by
  induction l with
  | nil => simp [stableSort]
  | cons x xs ih =>
    have : stableSort lt (x :: xs) = insertSorted lt x (stableSort lt xs) := rfl
    rw [this, insertSorted_mem_iff, ih]; simp

theorem stableSort_by_key_desc (key : α → Nat) (l : List α) :
    (stableSort (fun a b => decide (key a > key b)) l).Pairwise fun a b => key a ≥ key b := by
  induction l with
  | nil => simp [stableSort]
  | cons x xs ih => exact insertSorted_pairwise key x _ ih

/-- every element of the list carries the directory of its own path -/
def DirOf (all : List (Str × Str × List Entry)) : Prop := ∀ y ∈ all, y.2.1 = dirname y.1

/-- a Manifest pulled forward by `queue_manifest` lies in the directory of its referrer -/
theorem ref_same_dir (all : List (Str × Str × List Entry)) (hall : DirOf all) (x y : Str × Str × List Entry) (r : Str)
    (hr : r ∈ sameDirRefsOf x) (hf : all.find? (·.1 == r) = some y) : y.2.1 = x.2.1 := by
  have hy : y ∈ all := List.mem_of_find?_eq_some hf
  have h1 : (y.1 == r) = true := by
    have := List.find?_some hf
    simpa using this
  have h1 : y.1 = r := by simpa using h1
  unfold sameDirRefsOf at hr
  obtain ⟨e, _, he⟩ := List.mem_filterMap.mp hr
  split at he
  · rename_i p _ _ _
    simp only at he
    split at he
    · rename_i hd
      have hd : dirname (pjoin x.2.1 p) = x.2.1 := by simpa using hd
      have : r = pjoin x.2.1 p := by simpa using he.symm
      rw [hall y hy, h1, this, hd]
    · simp at he
  · simp at he

/-- the invariant of the ordering pass while it works in a directory of length `k`: the order built so far is by
    non-increasing directory length and nothing in it is shorter than `k` -/
def QInv (k : Nat) (acc : QAcc) : Prop :=
  (acc.1.Pairwise fun a b => a.2.1.length ≥ b.2.1.length) ∧ ∀ o ∈ acc.1, o.2.1.length ≥ k

theorem foldl_inv_mem {α β : Type} (P : β → Prop) (f : β → α → β) (l : List α) (b : β)
    (hb : P b) (hstep : ∀ b a, a ∈ l → P b → P (f b a)) : P (l.foldl f b) := by
  induction l generalizing b with
  | nil => simpa
  | cons a as ih =>
    simp only [List.foldl_cons]
    exact ih _ (hstep b a (by simp) hb) (fun b' a' ha' => hstep b' a' (by simp [ha']))

theorem queueManifest_inv (all : List (Str × Str × List Entry)) (hall : DirOf all) (k : Nat) :
    ∀ (fuel : Nat) (acc : QAcc) (x : Str × Str × List Entry), x.2.1.length = k → QInv k acc →
      QInv k (queueManifest all fuel acc x) := by
  intro fuel
  induction fuel with
  | zero => intro acc x _ h; simpa [queueManifest] using h
  | succ fuel ih =>
    intro acc x hk h
    simp only [queueManifest]
    split
    · exact h
    · have h1 : QInv k ((sameDirRefsOf x).foldl (queueStep all (queueManifest all fuel)) (acc.1, x.1 :: acc.2)) := by
        apply foldl_inv_mem (QInv k)
        · exact h
        · intro b r hr hb
          unfold queueStep
          split
          · rename_i y hf
            exact ih b y (by rw [ref_same_dir all hall x y r hr hf, hk]) hb
          · exact hb
      refine ⟨?_, ?_⟩
      · refine List.pairwise_append.mpr ⟨h1.1, by simp, ?_⟩
        intro a ha b hb
        have hb : b = x := by simpa using hb
        subst hb
        have := h1.2 a ha
        omega
      · intro o ho
        rcases List.mem_append.mp ho with ho | ho
        · exact h1.2 o ho
        · have : o = x := by simpa using ho
          subst this; omega

theorem queue_all_sorted (all : List (Str × Str × List Entry)) (hall : DirOf all) (fuel : Nat) :
    ∀ (l : List (Str × Str × List Entry)) (acc : QAcc),
      (l.Pairwise fun a b => a.2.1.length ≥ b.2.1.length) →
      (acc.1.Pairwise fun a b => a.2.1.length ≥ b.2.1.length) →
      (∀ o ∈ acc.1, ∀ x ∈ l, o.2.1.length ≥ x.2.1.length) →
      ((l.foldl (queueManifest all fuel) acc).1.Pairwise fun a b => a.2.1.length ≥ b.2.1.length) := by
  intro l
  induction l with
  | nil => intro acc _ h _; simpa using h
  | cons x xs ih =>
    intro acc hl hacc hge
    simp only [List.foldl_cons]
    have hx := List.pairwise_cons.mp hl
    have hq : QInv x.2.1.length (queueManifest all fuel acc x) :=
      queueManifest_inv all hall _ fuel acc x rfl ⟨hacc, fun o ho => hge o ho x (by simp)⟩
    refine ih _ hx.2 hq.1 ?_
    intro o ho y hy
    have := hq.2 o ho
    have := hx.1 y hy
    omega

/-- **children before parents.** In the save order every Manifest comes after all
    Manifests of strictly deeper directories (longer directory paths) - also with the
    same-directory references moved before their referrers (repair of finding F30). -/
theorem C03_save_children_first (lm : LoadedMs) :
    (saveOrder lm).Pairwise fun a b => a.2.1.length ≥ b.2.1.length := by
  unfold saveOrder
  have hs := stableSort_by_key_desc (fun (x : Str × Str × List Entry) => x.2.1.length)
    ((lm.map fun (k, v) => (k, dirname k, v)).reverse)
  have hall : DirOf (sortByDirLenDesc ((lm.map fun (k, v) => (k, dirname k, v)).reverse)) := by
    intro y hy
    unfold sortByDirLenDesc at hy
    have hy := (Gemato.C03.stableSort_mem_iff _ y _).mp hy
    simp only [List.mem_reverse, List.mem_map] at hy
    obtain ⟨kv, _, rfl⟩ := hy
    rfl
  exact queue_all_sorted _ hall _ _ ([], []) hs (by simp) (by simp)

/- What is NOT proved here (the full statement of C03): that after `updateDir` and `saveAll`
   succeed, every non-hidden non-IGNOREd regular file at or below the path has exactly one entry
   among the Manifests in use and that entry is `ExactFor` it, that no entry below the path names
   a missing file, and that every Manifest in use other than the top one is referenced by an exact
   entry. It is false of the current tree on the inputs of findings F7, F8, F20 and F21; on all
   other generated inputs it is decided by the correspondence runs (byte-exact agreement of the
   model with the implementation plus the on-disk oracle), not by a theorem. -/

end Gemato.C03
