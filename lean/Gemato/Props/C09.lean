import Gemato.Model.ManifestText
/-
  C09 — Malformed Manifest text is always rejected with a syntax error, never
  misread. Theorems about `loadFromLines` (= `ManifestFile.load`), for every
  list of lines, of any length.
-/
namespace Gemato.C09

theorem processPath_err (fs : List Str) (e : LoadErr) (h : processPath fs = .error e) : e = .syntax := by
  unfold processPath at h
  repeat' split at h
  all_goals first | (cases h; rfl) | (cases h)

theorem processChecksums_err (fs : List Str) (e : LoadErr) (h : processChecksums fs = .error e) :
    e = .syntax := by
  unfold processChecksums at h
  repeat' split at h
  all_goals first | (cases h; rfl) | (cases h)

theorem fileFromList_err (t : FTag) (fs : List Str) (e : LoadErr) (h : fileFromList t fs = .error e) :
    e = .syntax := by
  unfold fileFromList at h
  split at h
  · cases h; exact processPath_err _ _ ‹_›
  · split at h
    · cases h; rfl
    · split at h
      · cases h; exact processChecksums_err _ _ ‹_›
      · cases h

/-- `from_list` of every entry class ends in an entry or the syntax error. -/
theorem entryFromList_err (fs : List Str) (e : LoadErr) (h : entryFromList fs = .error e) : e = .syntax := by
  unfold entryFromList at h
  split at h
  · cases h; rfl
  · split at h
    · cases h; rfl
    · unfold timestampFromList at h
      repeat' split at h
      all_goals first | (cases h; rfl) | (cases h)
    · unfold ignoreFromList at h
      split at h
      · cases h; exact processPath_err _ _ ‹_›
      · cases h
    · exact fileFromList_err _ _ _ h

theorem loadCommon_err (s : LoadSt) (line : Str) (e : LoadErr) (h : loadCommon s line = .error e) :
    e = .syntax ∨ e = .unsignedData := by
  unfold loadCommon at h
  split at h
  · cases h; exact Or.inl rfl
  · split at h
    · cases h
    · cases h
    · split at h
      · cases h
      · cases h; exact Or.inr rfl
    · split at h
      · cases h
      · split at h
        · cases h
        · cases h; exact Or.inl (entryFromList_err _ _ ‹_›)

theorem loadStep_err (s : LoadSt) (line : Str) (e : LoadErr) (h : loadStep s line = .error e) :
    e = .syntax ∨ e = .unsignedData := by
  unfold loadStep at h
  split at h
  · split at h
    · split at h
      · cases h; exact Or.inr rfl
      · cases h
    · exact loadCommon_err _ _ _ h
  · simp only at h
    split at h
    · split at h
      · cases h; exact Or.inl rfl
      · cases h
    · exact loadCommon_err _ _ _ h
  · simp only at h
    split at h
    · cases h
    · exact loadCommon_err _ _ _ h
  · simp only at h
    split at h
    · cases h
    · exact loadCommon_err _ _ _ h
  · exact loadCommon_err _ _ _ h

theorem loadLines_err (s : LoadSt) (ls : List Str) (e : LoadErr) (h : loadLines s ls = .error e) :
    e = .syntax ∨ e = .unsignedData := by
  induction ls generalizing s with
  | nil => simp [loadLines] at h
  | cons l ls ih =>
    simp only [loadLines] at h
    split at h
    · exact ih _ h
    · cases h; exact loadStep_err _ _ _ ‹_›

/-- **C09 (totality).** For every list of lines the loader returns entries or
    fails with the library's syntax-error or unsigned-data exception; the
    internal-error outcome is unreachable. -/
theorem C09_only_library_errors (ls : List Str) (e : LoadErr) (h : loadFromLines ls = .error e) :
    e = .syntax ∨ e = .unsignedData := by
  unfold loadFromLines at h
  split at h
  · cases h; exact loadLines_err _ _ _ ‹_›
  · split at h
    all_goals first | (cases h; exact Or.inl rfl) | (cases h)

theorem C09_no_internal (ls : List Str) (k : IntKind) : loadFromLines ls ≠ .error (.internal k) := by
  intro h
  rcases C09_only_library_errors ls _ h with h | h <;> cases h

theorem C09_no_internal_text (t : Str) (k : IntKind) :
    loadText t ≠ .error (.internal k) ∧ loadFile t ≠ .error (.internal k) :=
  ⟨C09_no_internal _ k, C09_no_internal _ k⟩

-- Rejection of each malformed class named in the property -------------------

/-- unknown tag -/
theorem unknown_tag_rejected (tag : Str) (rest : List Str) (h : tagOf? tag = none) :
    entryFromList (tag :: rest) = .error .syntax := by
  simp [entryFromList, h]

theorem ts_lookup : tagOf? sTIMESTAMP = some .ts := by decide
theorem ign_lookup : tagOf? sIGNORE = some .ign := by decide
theorem ftag_lookup (t : FTag) : tagOf? t.name = some (.f t) := by cases t <;> decide

/-- TIMESTAMP with a number of values other than one -/
theorem timestamp_arity_rejected (fs : List Str) (h : fs.length ≠ 1) :
    entryFromList (sTIMESTAMP :: fs) = .error .syntax := by
  match fs, h with
  | [], _ => simp [entryFromList, ts_lookup, timestampFromList]
  | [_], h => simp at h
  | _ :: _ :: _, _ => simp [entryFromList, ts_lookup, timestampFromList]

/-- malformed timestamp -/
theorem timestamp_malformed_rejected (v : Str) (h : parseTs? v = none) :
    entryFromList [sTIMESTAMP, v] = .error .syntax := by
  simp [entryFromList, ts_lookup, timestampFromList, h]

/-- IGNORE with a number of values other than one -/
theorem ignore_arity_rejected (fs : List Str) (h : fs.length ≠ 1) :
    entryFromList (sIGNORE :: fs) = .error .syntax := by
  match fs, h with
  | [], _ => simp [entryFromList, ign_lookup, ignoreFromList, processPath]
  | [_], h => simp at h
  | _ :: _ :: _, _ => simp [entryFromList, ign_lookup, ignoreFromList, processPath]

/-- a path field that is empty, absolute as written, carries a bare, short or
    non-hex escape or an escape above 0x10FFFF, or is absolute after
    unescaping ("however it is escaped") -/
def BadPathField (p : Str) : Prop :=
  p = [] ∨ p.head? = some 47 ∨ (∃ e, decodePath p = .error e) ∨ (∃ q, decodePath p = .ok q ∧ q.head? = some 47)

theorem processPath_bad (tag p : Str) (h : BadPathField p) : processPath [tag, p] = .error .syntax := by
  unfold processPath
  simp only
  split
  · rfl
  · rename_i hne
    rcases h with h | h | ⟨e, h⟩ | ⟨q, h, hq⟩
    · subst h; simp at hne
    · simp [isAbs, h] at hne
    · simp [h]
    · simp [h, isAbs, hq]

theorem bad_path_rejected_ignore (p : Str) (h : BadPathField p) :
    entryFromList [sIGNORE, p] = .error .syntax := by
  simp [entryFromList, ign_lookup, ignoreFromList, processPath_bad _ _ h]

theorem bad_path_rejected_file (t : FTag) (p : Str) (rest : List Str) (h : BadPathField p) :
    entryFromList (t.name :: p :: rest) = .error .syntax := by
  simp [entryFromList, ftag_lookup, fileFromList, processPath_bad _ _ h]

theorem fileFromList_syntax_of (t : FTag) (fs : List Str)
    (h : processChecksums fs = .error .syntax) : fileFromList t fs = .error .syntax := by
  unfold fileFromList
  split
  · rename_i e he; rw [processPath_err _ _ he]
  · split
    · rfl
    · simp [h]

/-- a file entry without a size field -/
theorem file_arity_rejected (t : FTag) (fs : List Str) (h : fs.length < 2) :
    entryFromList (t.name :: fs) = .error .syntax := by
  simp only [entryFromList, ftag_lookup]
  apply fileFromList_syntax_of
  match fs, h with
  | [], _ => rfl
  | [_], _ => rfl

/-- a size field `int()` rejects, or a negative one -/
theorem bad_size_rejected (t : FTag) (p sz : Str) (rest : List Str) (h : parseSize? sz = none) :
    entryFromList (t.name :: p :: sz :: rest) = .error .syntax := by
  simp only [entryFromList, ftag_lookup]
  apply fileFromList_syntax_of
  simp [processChecksums, h]

/-- a negative size is such a field -/
theorem negative_size_rejected (body ds : Str) (h : intBody? body = some ds) (hv : digitsVal ds ≠ 0) :
    parseSize? (45 :: body) = none := by
  simp [parseSize?, h, hv]

/-- a checksum name without a value (odd number of checksum fields) -/
theorem parseCks_odd (fs : List Str) (acc : List (Str × Str)) (h : fs.length % 2 = 1) :
    parseCks? fs acc = none := by
  induction fs, acc using parseCks?.induct with
  | case1 acc => simp at h
  | case2 _ acc => rfl
  | case3 k v rest acc ih =>
    simp only [parseCks?]
    apply ih
    simp at h; omega

theorem dangling_checksum_rejected (t : FTag) (p sz : Str) (rest : List Str) (h : rest.length % 2 = 1) :
    entryFromList (t.name :: p :: sz :: rest) = .error .syntax := by
  simp only [entryFromList, ftag_lookup]
  apply fileFromList_syntax_of
  simp only [processChecksums]
  split
  · rfl
  · simp [parseCks_odd rest [] h]

/-- a DIST name containing a slash (after unescaping) -/
theorem dist_slash_rejected (p q : Str) (rest : List Str) (hd : decodePath p = .ok q) (hs : 47 ∈ q) :
    entryFromList (sDIST :: p :: rest) = .error .syntax := by
  have : sDIST = FTag.DIST.name := rfl
  rw [this]
  simp only [entryFromList, ftag_lookup, fileFromList, List.take]
  split
  · rename_i e he; rw [processPath_err _ _ he]
  · rename_i p' hp
    have : p' = q := by
      simp only [processPath] at hp
      split at hp
      · cases hp
      · rw [hd] at hp
        simp only at hp
        split at hp
        · cases hp
        · cases hp; rfl
    subst this
    simp [hs]

-- Nothing is skipped or half-read ---------------------------------------------

/-- The outcome of one line of an unsigned Manifest, on its own. -/
def lineEntry (line : Str) : Except LoadErr (Option Entry) :=
  if armorLike line then .error .syntax
  else if (splitWs line).isEmpty then .ok none
  else match entryFromList (splitWs line) with
    | .ok e => .ok (some e)
    | .error err => .error err

def linesEntries : List Str → Except LoadErr (List Entry)
  | [] => .ok []
  | l :: ls => match lineEntry l with
    | .error e => .error e
    | .ok o => match linesEntries ls with
      | .error e => .error e
      | .ok es => .ok (o.toList ++ es)

theorem loadLines_data (acc : List Entry) (ls : List Str) (h : ∀ l ∈ ls, l ≠ lnBeginMsg) :
    loadLines ⟨.data, acc, []⟩ ls =
      match linesEntries ls with
      | .error e => .error e
      | .ok es => .ok ⟨.data, acc ++ es, []⟩ := by
  induction ls generalizing acc with
  | nil => simp [loadLines, linesEntries]
  | cons l ls ih =>
    have hl : l ≠ lnBeginMsg := h l (by simp)
    have hls : ∀ l ∈ ls, l ≠ lnBeginMsg := fun x hx => h x (by simp [hx])
    simp only [loadLines, loadStep, hl, if_false, loadCommon, linesEntries, lineEntry]
    by_cases ha : armorLike l = true
    · simp [ha]
    · simp only [ha, Bool.false_eq_true, if_false]
      by_cases he : (splitWs l).isEmpty = true
      · simp only [he, if_true]
        rw [ih acc hls]
        cases linesEntries ls <;> simp
      · simp only [he, Bool.false_eq_true, if_false]
        cases hx : entryFromList (splitWs l) with
        | error e => simp
        | ok e =>
          simp only
          rw [ih (acc ++ [e]) hls]
          cases linesEntries ls <;> simp

/-- **C09 (line homomorphism).** In a text without a signed-message header the
    result is exactly the per-line results put together: every non-blank line
    contributes exactly one entry or makes the whole load fail. -/
theorem C09_line_homomorphism (ls : List Str) (h : ∀ l ∈ ls, l ≠ lnBeginMsg) :
    loadFromLines ls =
      match linesEntries ls with
      | .error e => .error e
      | .ok es => .ok ⟨es, none⟩ := by
  unfold loadFromLines
  have := loadLines_data [] ls h
  simp only [List.nil_append] at this
  show (match loadLines {} ls with | .error e => _ | .ok s => _) = _
  rw [show ({} : LoadSt) = ⟨.data, [], []⟩ from rfl, this]
  cases linesEntries ls <;> simp

-- non-vacuity: concrete lines that meet the hypotheses ---------------------------
example : BadPathField [92, 120, 50, 70, 101] :=                                                      -- "\x2Fe"
  Or.inr (Or.inr (Or.inr ⟨[47, 101], by simp [decodePath, escWidth?, fromHex?, hexVal?, Except.map], rfl⟩))
example : BadPathField [97, 92] :=                                                                    -- "a\"
  Or.inr (Or.inr (Or.inl ⟨.invalidEscape, by simp [decodePath, Except.map]⟩))
example : parseSize? [45, 49] = none := by decide                                                      -- "-1"
example : parseTs? [50, 48, 49, 55] = none := by decide                                                -- "2017"

end Gemato.C09
