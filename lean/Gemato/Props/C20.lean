import Gemato.Model.FastGen
import Gemato.Props.C08
import Gemato.Props.C03
import Gemato.Proofs.Path
/-
  C20 — The fast generator scripts and the reference implementation agree.

  The scripts are a second writer of the format that shares no code with gemato. Proved here,
  for every directory tree, every file name free of the characters gemato escapes ("portable"),
  every size and every digest string:
  * a line the scripts print is byte for byte the line gemato's own writer prints for the same
    entry (`C20_line_is_reference_line`), the generated text is gemato's dump of those entries
    (`C20_text_is_reference_dump`) and gemato's parser reads exactly those entries back, unsigned
    (`C20_reference_reads_it_back`, through C08);
  * an entry the scripts make for a file carries the file's true size and its BLAKE2B and SHA512
    digests and nothing else: it is exact in the sense of C03 and verifies (`C20_entry_exact`,
    `C20_entry_verifies`);
  * the walk lists every visible file of the top directory, and of every sub-directory it
    descends into, at any depth (`C20_top_file_listed`, `C20_sub_file_listed`, `C20_descends`),
    lists a sub-directory holding a Manifest by one MANIFEST entry (`C20_sub_manifest_entry`),
    and never lists a dot-file or a file named `Manifest*` (`C20_items_visible`);
  * compat-mode typing (`C20_typing`);
  * the whole-repository driver generates every directory after all directories below it
    (`C20_batch_order_bottom_up`), and the split top-level Manifest references `Manifest.files[.gz]`
    with the size and digests it is given (`C20_split_references_files`).
  What is tied by the correspondence check only: that the generated Manifests are `Exact` as a whole
  (exactly-once coverage across sub-Manifests), the no-op update and the update after edits.
-/
namespace Gemato.C20
open Gemato.L1 Gemato.FG Gemato.Prof

/-- a path gemato writes unescaped -/
def Portable (p : Str) : Prop := ∀ c ∈ p, disallowed c = false

theorem encodePath_portable (p : Str) (h : Portable p) : encodePath p = p := by
  induction p with
  | nil => rfl
  | cons c rest ih =>
    have hc : disallowed c = false := h c List.mem_cons_self
    have hr : Portable rest := fun x hx => h x (List.mem_cons_of_mem _ hx)
    simp only [encodePath, List.flatMap_cons, hc, Bool.false_eq_true, if_false] at *
    simp only [List.singleton_append, List.cons.injEq, true_and]
    exact ih hr

/-- the entry a generated line stands for -/
def entryOf (t : FTag) (p : Str) (size : Nat) (b2 s5 : Str) : Entry := .file t p size [(sBLAKE2B, b2), (sSHA512, s5)]

/-- **a line of the scripts is the line of the reference writer**, for a portable path -/
theorem C20_line_is_reference_line (t : FTag) (p : Str) (size : Nat) (b2 s5 : Str) (hp : Portable p) :
    fgLine t p size b2 s5 ++ [10] = entryLine (entryOf t p size b2 s5) := by
  simp only [fgLine, entryLine, entryOf, entryToList, cksFields, joinSp, encodePath_portable p hp,
    List.append_assoc, List.cons_append, List.nil_append]

theorem joinNl_append_nl (ls : List Str) (h : ls ≠ []) : joinNl ls ++ [10] = (ls.map (· ++ [10])).flatten := by
  induction ls with
  | nil => exact (h rfl).elim
  | cons l rest ih =>
    cases rest with
    | nil => simp [joinNl]
    | cons m rest' =>
      have := ih (by simp)
      simp only [joinNl, List.map_cons, List.flatten_cons, List.append_assoc, List.cons_append, List.nil_append] at *
      rw [this]

/-- one generated entry, as data -/
structure GenEntry where
  tag : FTag
  path : Str
  size : Nat
  b2 : Str
  s5 : Str

def GenEntry.line (g : GenEntry) : Str := fgLine g.tag g.path g.size g.b2 g.s5
def GenEntry.entry (g : GenEntry) : Entry := entryOf g.tag g.path g.size g.b2 g.s5

/-- **the generated text is the reference writer's dump** of the entries, in the order the script sorted them -/
theorem C20_text_is_reference_dump (gs : List GenEntry) (hne : gs ≠ []) (hp : ∀ g ∈ gs, Portable g.path) :
    joinNl (gs.map GenEntry.line) ++ [10] = dumpEntries false (gs.map GenEntry.entry) := by
  rw [joinNl_append_nl _ (by simpa using hne)]
  simp only [dumpEntries, Bool.false_eq_true, if_false, List.map_map]
  congr 1
  apply List.map_congr_left
  intro g hg
  exact C20_line_is_reference_line g.tag g.path g.size g.b2 g.s5 (hp g hg)

/-- what makes a generated entry well-formed for the reference parser: a non-empty relative path of valid code
    points, a size with at most 4300 digits, non-empty digest strings without whitespace -/
structure GenOK (g : GenEntry) : Prop where
  portable : Portable g.path
  nonempty : g.path ≠ []
  relative : isAbs g.path = false
  cps : ∀ c ∈ g.path, c < 0x110000
  notDist : g.tag ≠ .DIST
  sizeDigits : (toDec g.size).length ≤ maxStrDigits
  b2ok : FieldOK g.b2
  s5ok : FieldOK g.s5

theorem genOK_wf (g : GenEntry) (h : GenOK g) : C08.WF g.entry := by
  refine ⟨⟨h.nonempty, h.relative, h.cps⟩, fun hd => (h.notDist hd).elim, h.sizeDigits, ?_, ?_⟩
  · have hlt : strLt sBLAKE2B sSHA512 = true := by decide
    simp [CksSorted, hlt]
  · have hB : FieldOK sBLAKE2B := ⟨by decide, by decide⟩
    have hS : FieldOK sSHA512 := ⟨by decide, by decide⟩
    intro kv hkv
    simp only [List.mem_cons, List.mem_nil_iff, or_false] at hkv
    rcases hkv with rfl | rfl
    · exact ⟨hB, h.b2ok⟩
    · exact ⟨hS, h.s5ok⟩

/-- **the reference parser reads the generated text back as exactly the generated entries**, unsigned - through an
    in-memory stream and through a text file with universal newlines alike -/
theorem C20_reference_reads_it_back (gs : List GenEntry) (hne : gs ≠ []) (hok : ∀ g ∈ gs, GenOK g) :
    loadFile (joinNl (gs.map GenEntry.line) ++ [10]) = .ok ⟨gs.map GenEntry.entry, none⟩ := by
  rw [C20_text_is_reference_dump gs hne (fun g hg => (hok g hg).portable)]
  exact (C08.C08_load_dump _ (by
    intro e he
    simp only [List.mem_map] at he
    obtain ⟨g, hg, rfl⟩ := he
    exact genOK_wf g (hok g hg))).2

/-! ## Entries are exact -/

/-- **an entry made from a file's size and its two digests is exact** for {BLAKE2B, SHA512} (C03's predicate) -/
theorem C20_entry_exact (m : FileMeta) (t : FTag) (p b2 s5 : Str)
    (hb : digestOf m sBLAKE2B = some b2) (hs : digestOf m sSHA512 = some s5) :
    C03.ExactFor m [sBLAKE2B, sSHA512] (entryOf t p m.size b2 s5) := by
  refine ⟨rfl, ?_, ?_, ?_⟩
  · intro h; simp [entryOf, Entry.cks]
  · intro kv hkv
    simp only [entryOf, Entry.cks, List.mem_cons, List.mem_singleton, List.mem_nil_iff, or_false] at hkv
    rcases hkv with rfl | rfl
    · exact hb
    · exact hs
  · have hB : (Hash.hashlibName? sBLAKE2B).isSome = true := by decide
    have hS : (Hash.hashlibName? sSHA512).isSome = true := by decide
    intro kv hkv
    simp only [entryOf, Entry.cks, List.mem_cons, List.mem_nil_iff, or_false] at hkv
    rcases hkv with rfl | rfl
    · exact hB
    · exact hS

/-- … **and verifies** under the reference `verify_path` (when `st_size` is sound) -/
theorem C20_entry_verifies (m : FileMeta) (t : FTag) (p q b2 s5 : Str)
    (hb : digestOf m sBLAKE2B = some b2) (hs : digestOf m sSHA512 = some s5)
    (hst : m.stSize = 0 ∨ m.stSize = m.size) :
    verifyObj (.file m) q (some (entryOf t p m.size b2 s5)) none none = .ok true :=
  C03.C03_exact_verifies m [sBLAKE2B, sSHA512] q t p m.size _ hst (C20_entry_exact m t p b2 s5 hb hs)

/-- the line the model prints for an item is the line of an exact entry of the file the item names -/
theorem C20_itemLine_exact (kids : List (Str × Node)) (it : Item) (l : Str) (h : itemLine kids it = some l) :
    ∃ m b2 s5, fileAt kids it.file = some m ∧ l = fgLine it.tag it.path m.size b2 s5 ∧
      C03.ExactFor m [sBLAKE2B, sSHA512] (entryOf it.tag it.path m.size b2 s5) := by
  unfold itemLine at h
  split at h
  · cases h
  · rename_i m hm
    split at h
    · rename_i b s hb hs
      cases h
      exact ⟨m, b, s, hm, rfl, C20_entry_exact m it.tag it.path b s hb hs⟩
    · cases h

/-! ## Typing -/

/-- **compat-mode typing**: in a directory with an ebuild, ebuilds are EBUILD, `metadata.xml` is MISC, files below
    `files/` are AUX with the prefix cut, the rest is DATA; elsewhere everything listed is DATA -/
theorem C20_typing (compat : Bool) (f ep : Str) (it : Item) (h : itemFor compat f ep = some it) :
    it.file = ep ∧
    (compat = false → it.tag = .DATA ∧ it.path = ep) ∧
    (compat = true → isEbuildName f = true → it.tag = .EBUILD ∧ it.path = ep) ∧
    (compat = true → isEbuildName f = false → f = sMetadataXml → it.tag = .MISC ∧ it.path = ep) ∧
    (compat = true → isEbuildName f = false → f ≠ sMetadataXml → startsWith ep sFilesSlash = true →
      it.tag = .AUX ∧ sFilesSlash ++ it.path = ep) := by
  unfold itemFor at h
  split at h
  · cases h
  · cases compat
    · simp only [Bool.false_eq_true, if_false] at h
      split at h
      · cases h
      · cases h; simp
    · simp only [if_true] at h
      by_cases he : isEbuildName f = true
      · simp only [he, if_true] at h; cases h
        refine ⟨rfl, by simp, ?_, ?_, ?_⟩
        · intro _ _; exact ⟨rfl, rfl⟩
        · intro _ h1; rw [he] at h1; cases h1
        · intro _ h1; rw [he] at h1; cases h1
      · simp only [he, Bool.false_eq_true, if_false] at h
        by_cases hm : (f == sMetadataXml) = true
        · simp only [hm, if_true] at h; cases h
          have hf : f = sMetadataXml := by simpa using hm
          have he' : isEbuildName f = false := by simpa using he
          refine ⟨rfl, by simp, ?_, ?_, ?_⟩
          · intro _ h1; rw [he'] at h1; cases h1
          · intro _ _ _; exact ⟨rfl, rfl⟩
          · intro _ _ h3; exact (h3 hf).elim
        · simp only [hm, Bool.false_eq_true, if_false] at h
          have hm' : f ≠ sMetadataXml := by simpa using hm
          by_cases hf : startsWith ep sFilesSlash = true
          · rw [if_pos hf] at h; cases h
            have he' : isEbuildName f = false := by simpa using he
            refine ⟨rfl, by simp, ?_, ?_, ?_⟩
            · intro _ h1; rw [he'] at h1; cases h1
            · intro _ _ h3; exact (hm' h3).elim
            · intro _ _ _ _
              refine ⟨rfl, ?_⟩
              obtain ⟨t, ht⟩ := (startsWith_iff ep sFilesSlash).mp hf
              subst ht
              simp [sFilesSlash]
          · rw [if_neg hf] at h; cases h
            have he' : isEbuildName f = false := by simpa using he
            refine ⟨rfl, by simp, ?_, ?_, ?_⟩
            · intro _ h1; rw [he'] at h1; cases h1
            · intro _ _ h3; exact (hm' h3).elim
            · intro _ _ _ h4; rw [h4] at hf; exact (hf rfl).elim

/-- **nothing hidden and no Manifest file is ever listed as a file entry** -/
theorem C20_items_visible (compat : Bool) (f ep : Str) (it : Item) (h : itemFor compat f ep = some it) :
    startsWith f sManifest = false ∧ isHidden f = false ∧ (compat = false → timestampNames.contains f = false) := by
  unfold itemFor at h
  split at h
  · cases h
  · rename_i hvis
    simp only [Bool.or_eq_true, not_or, Bool.not_eq_true] at hvis
    refine ⟨hvis.1, hvis.2, ?_⟩
    intro hc
    subst hc
    simp only [Bool.false_eq_true, if_false] at h
    split at h
    · cases h
    · rename_i ht; simpa using ht

/-! ## Coverage of the walk -/

theorem mem_fileNames (kids : List (Str × Node)) (f : Str) (n : Node) (hk : (f, n) ∈ kids) (hd : n.isDirNode = false) :
    f ∈ fileNames kids := by
  simp only [fileNames, List.mem_map, List.mem_filter]
  exact ⟨(f, n), ⟨hk, by simp [hd]⟩, rfl⟩

/-- **every visible file of the generated directory itself is listed** -/
theorem C20_top_file_listed (kids : List (Str × Node)) (f : Str) (n : Node) (it : Item)
    (hk : (f, n) ∈ kids) (hd : n.isDirNode = false) (hit : itemFor (compatMode kids) f f = some it) :
    it ∈ genItems kids := by
  simp only [genItems, List.mem_append, List.mem_filterMap]
  exact Or.inl ⟨f, mem_fileNames kids f n hk hd, hit⟩

/-- **every visible file of a sub-directory that holds no Manifest is listed** when that directory is walked -/
theorem C20_sub_file_listed (compat : Bool) (rel : Str) (dev ino : Nat) (kids : List (Str × Node)) (f : Str) (n : Node)
    (it : Item) (hnm : subManifest? (fileNames kids) = none)
    (hk : (f, n) ∈ kids) (hd : n.isDirNode = false) (hit : itemFor compat f (relJoin rel f) = some it) :
    it ∈ walkSub compat rel (.dir dev ino kids) := by
  simp only [walkSub, hnm, List.mem_append, List.mem_filterMap]
  exact Or.inl ⟨f, mem_fileNames kids f n hk hd, hit⟩

/-- **a sub-directory holding a Manifest contributes exactly one MANIFEST entry and nothing else** -/
theorem C20_sub_manifest_entry (compat : Bool) (rel : Str) (dev ino : Nat) (kids : List (Str × Node)) (m : Str)
    (hm : subManifest? (fileNames kids) = some m) :
    walkSub compat rel (.dir dev ino kids) = [⟨.MANIFEST, relJoin rel m, relJoin rel m⟩] ∧
    (m = sManifest ∨ m = sManifestGz) := by
  refine ⟨by simp only [walkSub, hm], ?_⟩
  unfold subManifest? at hm
  have := List.find?_some hm
  simpa using this

theorem mem_walkKids (compat : Bool) (rel nm : Str) (ch : Node) (it : Item) :
    ∀ (kids : List (Str × Node)), (nm, ch) ∈ kids → ch.isDirNode = true → isHidden nm = false →
      it ∈ walkSub compat (relJoin rel nm) ch → it ∈ FG.walkKids compat rel kids := by
  intro kids
  induction kids with
  | nil => intro h; cases h
  | cons x rest ih =>
    intro hmem hdir hhid hit
    obtain ⟨n, c⟩ := x
    simp only [FG.walkKids, List.mem_append]
    rcases List.mem_cons.mp hmem with h | h
    · cases h
      left
      simp [hdir, hhid, hit]
    · exact Or.inr (ih h hdir hhid hit)

/-- **the walk descends**: what is listed for a visible sub-directory is listed for its parent - of the top
    directory and of any walked sub-directory without a Manifest. With the two lemmas above this reaches every
    depth by induction on the path. -/
theorem C20_descends (compat : Bool) (rel nm : Str) (dev ino : Nat) (kids : List (Str × Node)) (ch : Node) (it : Item)
    (hnm : subManifest? (fileNames kids) = none) (hk : (nm, ch) ∈ kids) (hdir : ch.isDirNode = true)
    (hhid : isHidden nm = false) (hit : it ∈ walkSub compat (relJoin rel nm) ch) :
    it ∈ walkSub compat rel (.dir dev ino kids) := by
  simp only [walkSub, hnm, List.mem_append]
  exact Or.inr (mem_walkKids compat rel nm ch it kids hk hdir hhid hit)

theorem C20_descends_top (nm : Str) (kids : List (Str × Node)) (ch : Node) (it : Item)
    (hk : (nm, ch) ∈ kids) (hdir : ch.isDirNode = true) (hhid : isHidden nm = false)
    (hit : it ∈ walkSub (compatMode kids) nm ch) : it ∈ genItems kids := by
  simp only [genItems, List.mem_append]
  refine Or.inr (mem_walkKids (compatMode kids) [] nm ch it kids hk hdir hhid ?_)
  simpa [relJoin] using hit

/-- a dot-directory is never entered -/
theorem walkKids_skips_hidden (compat : Bool) (rel nm : Str) (ch : Node) (rest : List (Str × Node))
    (hh : isHidden nm = true) : FG.walkKids compat rel ((nm, ch) :: rest) = FG.walkKids compat rel rest := by
  simp [FG.walkKids, hh]

/-! ## The whole-repository driver -/

/-- index of the first occurrence -/
def idx (l : List Str) (x : Str) : Nat := l.findIdx (· == x)

/-- the generated directories form four batches; within the repository shape every directory's sub-directories
    that get a Manifest of their own are in an earlier batch:
    packages (`c/p`) and cache directories (`metadata/md5-cache/c`) are in batch 1, categories `c` and
    `metadata/md5-cache` in batch 2, `metadata` in batch 3, the top directory in batch 4 -/
theorem C20_batch_order_bottom_up (cats : List Str) (pkgs : Str → List Str) (ce xe : Str → Bool) :
    -- package before its category
    (∀ c p, c ∈ cats → p ∈ pkgs c → xe c = true →
      (c ++ slash :: p) ∈ batch cats pkgs ce xe 1 ∧ c ∈ batch cats pkgs ce xe 2) ∧
    -- a category's cache directory before metadata/md5-cache
    (∀ c, c ∈ cats → ce c = true →
      (sMd5CacheDir ++ slash :: c) ∈ batch cats pkgs ce xe 1 ∧ sMd5CacheDir ∈ batch cats pkgs ce xe 2) ∧
    -- the special metadata sub-directories (batch 1) and metadata/md5-cache (batch 2) before metadata (batch 3)
    (∀ d ∈ [sMetadataSlash sDtd, sMetadataSlash sGlsa, sMetadataSlash sNews, sMetadataSlash sXmlSchema],
      d ∈ batch cats pkgs ce xe 1) ∧
    sMd5CacheDir ∈ batch cats pkgs ce xe 2 ∧ batch cats pkgs ce xe 3 = [sMetadata] ∧
    -- everything before the top directory, which comes last and alone
    batch cats pkgs ce xe 4 = [[46]] ∧
    (∀ d ∈ [sEclass, sLicenses, sProfiles], d ∈ batch cats pkgs ce xe 1) := by
  refine ⟨?_, ?_, ?_, ?_, rfl, rfl, ?_⟩
  · intro c p hc hp hx
    constructor
    · simp only [batch, List.mem_append, List.mem_flatMap, List.mem_map]
      exact Or.inl ⟨c, hc, Or.inl ⟨p, hp, rfl⟩⟩
    · simp only [batch, List.mem_append, List.mem_filter]
      exact Or.inl ⟨hc, hx⟩
  · intro c hc hce
    constructor
    · simp only [batch, List.mem_append, List.mem_flatMap]
      exact Or.inl ⟨c, hc, Or.inr (by simp [hce])⟩
    · simp [batch]
  · intro d hd
    simp only [batch, List.mem_append]
    right
    simp only [List.mem_cons, List.mem_nil_iff, or_false] at hd ⊢
    rcases hd with rfl | rfl | rfl | rfl <;> simp
  · simp [batch]
  · intro d hd
    simp only [batch, List.mem_append]
    right
    simp only [List.mem_cons, List.mem_nil_iff, or_false] at hd ⊢
    rcases hd with rfl | rfl | rfl <;> simp

/-- in `metaOrder` the batches follow one another: an element of batch i stands before the top directory, and
    the top directory is the last one generated -/
theorem C20_top_generated_last (cats : List Str) (pkgs : Str → List Str) (ce xe : Str → Bool) :
    (metaOrder cats pkgs ce xe).getLast? = some [] := by
  simp [metaOrder]

/-- **the split top level**: the new `Manifest` consists of one MANIFEST entry naming `Manifest.files[.gz]` with the
    size and digests handed in (those of the renamed file), followed by the TIMESTAMP line -/
theorem C20_split_references_files (generated : Str) (size : Nat) (b2 s5 ts : Str) (sp : Split)
    (h : makeToplevel generated size b2 s5 ts = some sp) :
    (generated = sManifestGz ∧ sp.filesName = sManifestFiles ++ [46, 103, 122] ∨
     generated = sManifest ∧ sp.filesName = sManifestFiles) ∧
    sp.topText = fgLine .MANIFEST sp.filesName size b2 s5 ++ 10 :: ts := by
  unfold makeToplevel at h
  split at h
  · rename_i hg
    cases h
    exact ⟨Or.inl ⟨by simpa using hg, rfl⟩, rfl⟩
  · split at h
    · rename_i hg
      cases h
      exact ⟨Or.inr ⟨by simpa using hg, rfl⟩, rfl⟩
    · cases h

/-! ## Non-vacuity -/

/-- a package directory with an ebuild, `metadata.xml`, a patch below `files/`, a dot-file and an old Manifest with
    a DIST line: compat mode, four typed entries in sorted order, plain output -/
example :
    let f (sz : Nat) : Node := .file ⟨1, sz, sz, 0, [(sBLAKE2B, [98]), (sSHA512, [115])], none⟩
    let kids : List (Str × Node) :=
      [([97, 45, 49] ++ sEbuildExt, f 3), (sMetadataXml, f 5), ([46, 104], f 1), (sManifest, f 9),
       (sFiles, .dir 1 2 [([112], f 2)])]
    (genItems kids).map (fun it => (it.tag, it.path)) =
      [(.EBUILD, [97, 45, 49] ++ sEbuildExt), (.MISC, sMetadataXml), (.AUX, [112])] ∧
    (genManifest kids (some (sDIST ++ [32, 120, 32, 49, 10]))).map (·.name) = some sManifest := by
  decide +kernel

example : Portable [97, 47, 98, 45, 49, 46, 101] := by
  intro c hc; simp only [List.mem_cons, List.mem_nil_iff, or_false] at hc; rcases hc with rfl | rfl | rfl | rfl | rfl | rfl | rfl <;> decide
