import Gemato.Model.Faults
import Gemato.Model.VerifyDir
import Gemato.Model.Cli
/-
  C06 - I/O errors never turn into success or into "file absent".

  Part A is about the call-level model (`Gemato.Faults`): for *every* assignment
  of outcomes to the file-system calls of `get_file_metadata`.
  Part B is about the tree-level model (`Gemato.L1`, `Gemato.U`) with
  `Node.unreadable` objects.
-/
namespace Gemato.Props.C06
open Gemato.Faults Gemato.L1

/-- the errno with which call `k` fails under `c`, if it does -/
def errOf (c : Calls) : Call → Option Code
  | .open_ => (match c.open_ with | .error e => some e | .ok _ => none)
  | .fstat => (match c.fstat with | .error e => some e | .ok _ => none)
  | .stat => (match c.stat with | .error e => some e | .ok _ => none)
  | .fdopen => (match c.fdopen with | .error e => some e | .ok _ => none)
  | .read => (match c.read with | .error e => some e | .ok _ => none)
  | .close => none

/-- the only failures that are not re-raised: `os.open` failing with ENOENT
    (absent) or with ENXIO / EOPNOTSUPP (present but cannot be opened) -/
def Tolerated (k : Call) (e : Code) : Prop := k = .open_ ∧ (e = ENOENT ∨ e = ENXIO ∨ e = EOPNOTSUPP)

/-- **only ENOENT means absent** -/
theorem C06_absent_iff_enoent (c : Calls) (b : Bool) :
    openStage c = .ok (false, b) ↔ (c.open_ = .error ENOENT ∧ b = false) := by
  unfold openStage
  cases h : c.open_ with
  | ok u => simp
  | error k =>
    by_cases h1 : k = ENOENT
    · subst h1; simp
    · by_cases h2 : k = ENXIO ∨ k = EOPNOTSUPP <;> simp [h1, h2]

/-- **a stray object is "not there" only on ENOENT**: without an entry,
    verification of a path succeeds iff `os.open` failed with ENOENT -/
theorem C06_stray_ok_iff_enoent (c : Calls) (dev? : Option Nat) (lm : Option Int) :
    (verifyPathC c none dev? lm).1 = .ok true ↔ c.open_ = .error ENOENT := by
  unfold verifyPathC
  simp only
  cases h : openStage c with
  | error k =>
    simp only
    constructor
    · intro h'; cases h'
    · intro h'; simp [openStage, h'] at h
  | ok p =>
    obtain ⟨ex, op⟩ := p
    cases ex with
    | false =>
      simp only [Option.isNone_none, true_iff]
      exact ((C06_absent_iff_enoent c op).mp h).1
    | true =>
      simp only
      constructor
      · intro h'; cases h'
      · intro h'; simp [openStage, h'] at h

/-- a listed file whose `os.open` fails with ENOENT is a mismatch, never a success -/
theorem C06_listed_absent_is_mismatch (c : Calls) (t : FTag) (p : Str) (n : Nat) (cks : List (Str × Str))
    (dev? : Option Nat) (lm : Option Int) (h : c.open_ = .error ENOENT) :
    (verifyPathC c (some (.file t p n cks)) dev? lm).1 = .ok false := by
  simp [verifyPathC, openStage, h]

private theorem readStage_fault {α : Type} (c : Calls) (tr : List Call) (k : Nat × List (Str × Str) → Except Err α)
    (call : Call) (e : Code) (hmem : call ∈ (readStage c tr k).2) (hnot : call ∉ tr) (herr : errOf c call = some e) :
    (readStage c tr k).1 = .error (osErr e) := by
  unfold readStage at *
  cases hf : c.fdopen with
  | error e' =>
    simp only [hf] at hmem ⊢
    simp only [List.mem_append, List.mem_cons, List.not_mem_nil, or_false] at hmem
    rcases hmem with h | h | h
    · exact absurd h hnot
    · subst h; simp [errOf, hf] at herr; subst herr; rfl
    · subst h; simp [errOf] at herr
  | ok u =>
    simp only [hf] at hmem ⊢
    by_cases hb : c.badHash
    · simp only [hb, if_true] at hmem ⊢
      simp only [List.mem_append, List.mem_cons, List.not_mem_nil, or_false] at hmem
      rcases hmem with h | h | h
      · exact absurd h hnot
      · subst h; simp [errOf, hf] at herr
      · subst h; simp [errOf] at herr
    · simp only [hb] at hmem ⊢
      cases hr : c.read with
      | error e' =>
        simp only [hr] at hmem ⊢
        simp only [Bool.false_eq_true, if_false, List.mem_append, List.mem_cons, List.not_mem_nil, or_false] at hmem
        rcases hmem with h | h | h | h
        · exact absurd h hnot
        · subst h; simp [errOf, hf] at herr
        · subst h; simp [errOf, hr] at herr; subst herr; rfl
        · subst h; simp [errOf] at herr
      | ok r =>
        simp only [hr] at hmem
        simp only [Bool.false_eq_true, if_false, List.mem_append, List.mem_cons, List.not_mem_nil, or_false] at hmem
        rcases hmem with h | h | h | h
        · exact absurd h hnot
        · subst h; simp [errOf, hf] at herr
        · subst h; simp [errOf, hr] at herr
        · subst h; simp [errOf] at herr

private theorem openStage_error (c : Calls) (k : Code) (h : openStage c = .error k) :
    c.open_ = .error k ∧ ¬ (k = ENOENT ∨ k = ENXIO ∨ k = EOPNOTSUPP) := by
  unfold openStage at h
  cases ho : c.open_ with
  | ok u => simp [ho] at h
  | error e =>
    simp only [ho] at h
    by_cases h1 : e = ENOENT
    · simp [h1] at h
    · by_cases h2 : e = ENXIO ∨ e = EOPNOTSUPP
      · simp [h1, h2] at h
      · simp only [h1, h2, if_false] at h
        cases h
        exact ⟨rfl, by intro h3; rcases h3 with h3 | h3 | h3 <;> simp_all⟩

private theorem openStage_ok (c : Calls) (ex op : Bool) (h : openStage c = .ok (ex, op)) (e : Code)
    (he : errOf c .open_ = some e) : Tolerated .open_ e ∧ op = false := by
  unfold openStage at h
  cases ho : c.open_ with
  | ok u => simp [errOf, ho] at he
  | error e' =>
    simp only [errOf, ho, Option.some.injEq] at he
    subst he
    simp only [ho] at h
    by_cases h1 : e' = ENOENT
    · simp only [h1, if_true, Except.ok.injEq, Prod.mk.injEq] at h
      exact ⟨⟨rfl, Or.inl h1⟩, h.2.symm⟩
    · by_cases h2 : e' = ENXIO ∨ e' = EOPNOTSUPP
      · simp only [h1, h2, if_false, if_true, Except.ok.injEq, Prod.mk.injEq] at h
        exact ⟨⟨rfl, Or.inr h2⟩, h.2.symm⟩
      · simp [h1, h2] at h

private theorem statCall_err (c : Calls) (opened : Bool) (e : Code) (h : errOf c (statCall opened) = some e) :
    statOf c opened = .error e := by
  cases opened
  · simp only [statCall, statOf, errOf, Bool.false_eq_true, if_false] at *
    cases hs : c.stat <;> simp_all
  · simp only [statCall, statOf, errOf, if_true] at *
    cases hs : c.fstat <;> simp_all

private theorem statCall_ok (c : Calls) (opened : Bool) (st : St) (h : statOf c opened = .ok st) :
    errOf c (statCall opened) = none := by
  cases opened <;> simp_all [statCall, statOf, errOf]

private theorem mem_tr_close (opened : Bool) (call : Call) (h : call ∈ [Call.open_, statCall opened] ++ closeIf opened) :
    call = .open_ ∨ call = statCall opened ∨ call = .close := by
  cases opened <;> simp [closeIf] at h ⊢ <;> rcases h with h | h <;> simp_all

/-- **no call failure is swallowed by `verify_path`**: whatever call the
    generator issued that failed with an errno - other than the tolerated
    outcomes of `os.open` - that very error is what `verify_path` raises.
    In particular the result is then neither success nor a mismatch. -/
theorem C06_verify_raises_the_fault (c : Calls) (en : Option Entry) (dev? : Option Nat) (lm : Option Int)
    (call : Call) (e : Code) (hmem : call ∈ (verifyPathC c en dev? lm).2) (herr : errOf c call = some e)
    (hnt : ¬ Tolerated call e) : (verifyPathC c en dev? lm).1 = .error (osErr e) := by
  unfold verifyPathC at *
  split at hmem
  · simp at hmem
  · simp at hmem
  · cases hos : openStage c with
    | error k =>
      simp only [hos] at hmem ⊢
      simp only [List.mem_singleton] at hmem
      subst hmem
      obtain ⟨h1, _⟩ := openStage_error c k hos
      simp [errOf, h1] at herr
      subst herr; rfl
    | ok p =>
      obtain ⟨ex, op⟩ := p
      cases ex with
      | false =>
        simp only [hos] at hmem
        simp only [List.mem_singleton] at hmem
        subst hmem
        exact absurd (openStage_ok c _ _ hos e herr).1 hnt
      | true =>
        simp only [hos] at hmem ⊢
        have hopen : call ≠ .open_ := fun hc => hnt (hc ▸ (openStage_ok c _ _ hos e (hc ▸ herr)).1)
        have hclose : call ≠ .close := fun hc => by subst hc; simp [errOf] at herr
        split at hmem
        · cases op <;> simp [closeIf] at hmem <;> simp_all
        · simp at hmem
        · simp at hmem
        · rename_i t q esize cks
          cases hst : statOf c op with
          | error k =>
            simp only [hst] at hmem ⊢
            rcases mem_tr_close op call hmem with h | h | h
            · exact absurd h hopen
            · subst h; rw [statCall_err c op e herr] at hst; cases hst; rfl
            · exact absurd h hclose
          | ok st =>
            simp only [hst] at hmem ⊢
            have hstat : call ≠ statCall op := fun hc => by
              subst hc; rw [statCall_ok c op st hst] at herr; cases herr
            have hpre : call ∈ [Call.open_, statCall op] ++ closeIf op → False := fun hm => by
              rcases mem_tr_close op call hm with h | h | h
              · exact hopen h
              · exact hstat h
              · exact hclose h
            have hnotin : call ∉ [Call.open_, statCall op] := by
              simp only [List.mem_cons, List.not_mem_nil, or_false]
              rintro (h | h)
              · exact hopen h
              · exact hstat h
            by_cases h1 : devBad dev? st.dev = true
            · simp only [h1, if_true] at hmem; exact (hpre hmem).elim
            · simp only [h1, Bool.false_eq_true, if_false] at hmem ⊢
              by_cases h2 : st.kind ≠ .reg
              · rw [if_pos h2] at hmem; exact (hpre hmem).elim
              · rw [if_neg h2] at hmem ⊢
                by_cases h3 : st.size ≠ 0 ∧ st.size ≠ t
                · rw [if_pos h3] at hmem; exact (hpre hmem).elim
                · rw [if_neg h3] at hmem ⊢
                  by_cases h4 : skipSt st lm = true
                  · simp only [h4, if_true] at hmem; exact (hpre hmem).elim
                  · simp only [h4, Bool.false_eq_true, if_false] at hmem ⊢
                    by_cases h5 : (!op) = true
                    · simp only [h5, if_true] at hmem; exact (hnotin hmem).elim
                    · simp only [h5, Bool.false_eq_true, if_false] at hmem ⊢
                      exact readStage_fault c _ _ call e hmem hnotin herr

private theorem readStage_closes {α : Type} (c : Calls) (tr : List Call) (k : Nat × List (Str × Str) → Except Err α) :
    (readStage c tr k).2.count .close = tr.count .close + 1 := by
  unfold readStage
  cases c.fdopen with
  | error e => simp [List.count_append]
  | ok u =>
    by_cases hb : c.badHash = true
    · simp [hb, List.count_append]
    · cases c.read <;> simp [hb, List.count_append]

/-- `os.open` returned a descriptor -/
def opened (c : Calls) : Bool := match c.open_ with | .ok _ => true | .error _ => false

private theorem openStage_opened (c : Calls) (ex op : Bool) (h : openStage c = .ok (ex, op)) :
    op = opened c := by
  unfold openStage at h
  unfold opened
  cases ho : c.open_ with
  | ok u => simp only [ho, Except.ok.injEq, Prod.mk.injEq] at h; simp [h.2.symm]
  | error e =>
    simp only [ho] at h
    by_cases h1 : e = ENOENT
    · simp only [h1, if_true, Except.ok.injEq, Prod.mk.injEq] at h; simp [← h.2]
    · by_cases h2 : e = ENXIO ∨ e = EOPNOTSUPP
      · simp only [h1, h2, if_false, if_true, Except.ok.injEq, Prod.mk.injEq] at h; simp [← h.2]
      · simp [h1, h2] at h

private theorem count_pre (op : Bool) :
    ([Call.open_, statCall op] ++ closeIf op).count .close = if op then 1 else 0 := by
  cases op <;> simp [statCall, closeIf]

private theorem count_pre' (op : Bool) : [Call.open_, statCall op].count .close = 0 := by
  cases op <;> simp [statCall]

/-- **the descriptor is closed on every path** of `verify_path`: whenever `os.open`
    was called and returned a descriptor, the trace contains exactly one close (by
    `os.close` or by closing the file object that took the descriptor over),
    whatever failed afterwards and wherever the consumer stopped; otherwise none.
    (Repair of finding F22: stopping the generator early - a stray file, a
    non-regular file, a size mismatch, the mtime skip - used to leak it.) -/
theorem C06_verify_closes_descriptor (c : Calls) (en : Option Entry) (dev? : Option Nat) (lm : Option Int) :
    (verifyPathC c en dev? lm).2.count .close =
      if opened c && (verifyPathC c en dev? lm).2.contains .open_ then 1 else 0 := by
  unfold verifyPathC
  split
  · simp
  · simp
  · cases hos : openStage c with
    | error k =>
      have := (openStage_error c k hos).1
      simp [opened, this]
    | ok p =>
      obtain ⟨ex, op⟩ := p
      have hop := openStage_opened c ex op hos
      cases ex with
      | false =>
        have := ((C06_absent_iff_enoent c op).mp hos).1
        simp [opened, this]
      | true =>
        simp only
        split
        · rw [← hop]; cases op <;> simp [closeIf]
        · simp
        · simp
        · rename_i esize cks hx1 hx2
          rw [← hop]
          cases hst : statOf c op with
          | error k => simp only [count_pre]; cases op <;> simp [closeIf]
          | ok st =>
            simp only
            by_cases h1 : devBad dev? st.dev = true
            · simp only [h1, if_true, count_pre]; cases op <;> simp [closeIf]
            · simp only [h1, Bool.false_eq_true, if_false]
              by_cases h2 : st.kind ≠ .reg
              · rw [if_pos h2]; simp only [count_pre]; cases op <;> simp [closeIf]
              · rw [if_neg h2]
                by_cases h3 : st.size ≠ 0 ∧ st.size ≠ esize
                · rw [if_pos h3]; simp only [count_pre]; cases op <;> simp [closeIf]
                · rw [if_neg h3]
                  by_cases h4 : skipSt st lm = true
                  · simp only [h4, if_true, count_pre]; cases op <;> simp [closeIf]
                  · simp only [h4, Bool.false_eq_true, if_false]
                    cases op with
                    | false => simp [statCall]
                    | true =>
                      simp only [Bool.not_true, Bool.false_eq_true, if_false, readStage_closes, count_pre']
                      simp only [readStage, statCall]
                      cases c.fdopen with
                      | error e => simp
                      | ok u =>
                        by_cases hb : c.badHash = true
                        · simp [hb]
                        · cases c.read <;> simp [hb]

/-- **no call failure is swallowed by `update_entry_for_path`** either -/
theorem C06_update_raises_the_fault (c : Calls) (en : Entry) (dev? : Option Nat) (lm : Option Int)
    (call : Call) (e : Code) (hmem : call ∈ (updateEntryC c en dev? lm).2) (herr : errOf c call = some e)
    (hnt : ¬ Tolerated call e) : (updateEntryC c en dev? lm).1 = .error (osErr e) := by
  unfold updateEntryC at *
  split at hmem
  · simp at hmem
  · simp at hmem
  · rename_i t q esize cks
    cases hos : openStage c with
    | error k =>
      simp only [hos] at hmem ⊢
      simp only [List.mem_singleton] at hmem
      subst hmem
      obtain ⟨h1, _⟩ := openStage_error c k hos
      simp [errOf, h1] at herr
      subst herr; rfl
    | ok p =>
      obtain ⟨ex, op⟩ := p
      cases ex with
      | false =>
        simp only [hos] at hmem
        simp only [List.mem_singleton] at hmem
        subst hmem
        exact absurd (openStage_ok c _ _ hos e herr).1 hnt
      | true =>
        simp only [hos] at hmem ⊢
        have hopen : call ≠ .open_ := fun hc => hnt (hc ▸ (openStage_ok c _ _ hos e (hc ▸ herr)).1)
        have hclose : call ≠ .close := fun hc => by subst hc; simp [errOf] at herr
        cases hst : statOf c op with
        | error k =>
          simp only [hst] at hmem ⊢
          rcases mem_tr_close op call hmem with h | h | h
          · exact absurd h hopen
          · subst h; rw [statCall_err c op e herr] at hst; cases hst; rfl
          · exact absurd h hclose
        | ok st =>
          simp only [hst] at hmem ⊢
          have hstat : call ≠ statCall op := fun hc => by
            subst hc; rw [statCall_ok c op st hst] at herr; cases herr
          have hpre : call ∈ [Call.open_, statCall op] ++ closeIf op → False := fun hm => by
            rcases mem_tr_close op call hm with h | h | h
            · exact hopen h
            · exact hstat h
            · exact hclose h
          have hnotin : call ∉ [Call.open_, statCall op] := by
            simp only [List.mem_cons, List.not_mem_nil, or_false]
            rintro (h | h)
            · exact hopen h
            · exact hstat h
          by_cases h1 : devBad dev? st.dev = true
          · simp only [h1, if_true] at hmem; exact (hpre hmem).elim
          · simp only [h1, Bool.false_eq_true, if_false] at hmem ⊢
            by_cases h2 : st.kind ≠ .reg
            · rw [if_pos h2] at hmem; exact (hpre hmem).elim
            · rw [if_neg h2] at hmem ⊢
              by_cases h4 : (skipSt st lm && st.size == esize) = true
              · simp only [h4, if_true] at hmem; exact (hpre hmem).elim
              · simp only [h4, Bool.false_eq_true, if_false] at hmem ⊢
                by_cases h5 : (!op) = true
                · simp only [h5, if_true] at hmem; exact (hnotin hmem).elim
                · simp only [h5, Bool.false_eq_true, if_false] at hmem ⊢
                  exact readStage_fault c _ _ call e hmem hnotin herr

/-- the descriptor is closed on every path of `update_entry_for_path` -/
theorem C06_update_closes_descriptor (c : Calls) (en : Entry) (dev? : Option Nat) (lm : Option Int) :
    (updateEntryC c en dev? lm).2.count .close =
      if opened c && (updateEntryC c en dev? lm).2.contains .open_ then 1 else 0 := by
  unfold updateEntryC
  split
  · simp
  · simp
  · rename_i t q esize cks
    cases hos : openStage c with
    | error k =>
      have := (openStage_error c k hos).1
      simp [opened, this]
    | ok p =>
      obtain ⟨ex, op⟩ := p
      have hop := openStage_opened c ex op hos
      cases ex with
      | false =>
        have := ((C06_absent_iff_enoent c op).mp hos).1
        simp [opened, this]
      | true =>
        simp only
        rw [← hop]
        cases hst : statOf c op with
        | error k => simp only [count_pre]; cases op <;> simp [closeIf]
        | ok st =>
          simp only
          by_cases h1 : devBad dev? st.dev = true
          · simp only [h1, if_true, count_pre]; cases op <;> simp [closeIf]
          · simp only [h1, Bool.false_eq_true, if_false]
            by_cases h2 : st.kind ≠ .reg
            · rw [if_pos h2]; simp only [count_pre]; cases op <;> simp [closeIf]
            · rw [if_neg h2]
              by_cases h4 : (skipSt st lm && st.size == esize) = true
              · simp only [h4, if_true, count_pre]; cases op <;> simp [closeIf]
              · simp only [h4, Bool.false_eq_true, if_false]
                cases op with
                | false => simp [statCall]
                | true =>
                  simp only [Bool.not_true, Bool.false_eq_true, if_false, readStage_closes, count_pre']
                  simp only [readStage, statCall]
                  cases c.fdopen with
                  | error e => simp
                  | ok u =>
                    by_cases hb : c.badHash = true
                    · simp [hb]
                    · cases c.read <;> simp [hb]

/-- non-vacuity: an I/O error while reading a correctly listed file surfaces as that error;
    the same file without the fault verifies -/
example :
    let good : Calls := { open_ := .ok (), fstat := .ok ⟨.reg, 1, 3, 0⟩, stat := .error 5, fdopen := .ok (),
                          read := .ok (3, [([77], [97])]), badHash := false }
    let e : Entry := .file .DATA [102] 3 [([77], [97])]
    (verifyPathC good (some e) none none).1 = .ok true
    ∧ (verifyPathC { good with read := .error 5 } (some e) none none).1 = .error (osErr 5)
    ∧ (verifyPathC { good with open_ := .error 13 } none none none).1 = .error (osErr 13)
    ∧ (verifyPathC { good with open_ := .error 2 } none none none).1 = .ok true := by
  intro good e; exact ⟨rfl, rfl, rfl, rfl⟩

/-! ## Part B: unreadable objects in the tree-level model -/

/-- everything at or beneath an unreadable object fails with its errno (ENOENT alone reads as absent) -/
theorem C06_resolve_unreadable (k : Nat) (d : Bool) (cs : List Str) :
    (Node.unreadable k d).resolve cs = some (if k == 2 then .absent else .fault k) := by
  cases cs <;> simp [Node.resolve]

/-- verifying an unreadable object raises its error: for a listed file and for a stray one alike -/
theorem C06_unreadable_obj_raises (k : Nat) (p : Str) (e : Option Entry) (dev? : Option Nat) (lm : Option Int)
    (hi : ∀ q, e ≠ some (.ignore q)) (ht : ∀ ts, e ≠ some (.timestamp ts)) :
    verifyObj (.fault k) p e dev? lm = .error (.os (.code k)) := by
  cases e with
  | none => rfl
  | some e =>
    cases e with
    | ignore q => exact absurd rfl (hi q)
    | timestamp ts => exact absurd rfl (ht ts)
    | file t q n c => rfl

/-- success on an object means it is not unreadable (unless the path is IGNOREd, which is decided without touching it) -/
theorem C06_ok_not_fault (o : Obj) (p : Str) (e : Option Entry) (dev? : Option Nat) (lm : Option Int) (b : Bool)
    (hi : ∀ q, e ≠ some (.ignore q)) (h : verifyObj o p e dev? lm = .ok b) : ∀ k, o ≠ .fault k := by
  intro k hk
  subst hk
  cases e with
  | none => simp [verifyObj] at h
  | some e =>
    cases e with
    | ignore q => exact absurd rfl (hi q)
    | timestamp ts => simp [verifyObj] at h
    | file t q n c => simp [verifyObj] at h

/-- refreshing the entry of an unreadable file raises its error -/
theorem C06_refresh_unreadable (k : Nat) (p : Str) (t : FTag) (q : Str) (n : Nat) (c : List (Str × Str))
    (hs : Option (List Str)) (dev? : Option Nat) (lm : Option Int) :
    Gemato.U.refreshEntry (.fault k) p (.file t q n c) hs dev? lm = .error (.os (.code k)) := rfl

/-- a loop whose body can raise stops at the first error: if the step for `a` raises in every state, the loop raises -/
theorem foldE_error_of_mem {σ α : Type} (f : σ → α → Except Err σ) (a : α) (xs : List α) (hmem : a ∈ xs)
    (h : ∀ s, ∃ e, f s a = .error e) : ∀ s, ∃ e, foldE f s xs = .error e := by
  induction xs with
  | nil => cases hmem
  | cons x rest ih =>
    intro s
    simp only [foldE]
    cases hx : f s x with
    | error e => exact ⟨e, rfl⟩
    | ok s' =>
      simp only
      rcases List.mem_cons.mp hmem with h1 | h1
      · subst h1; obtain ⟨e, he⟩ := h s; rw [he] at hx; cases hx
      · exact ih h1 s'

/-- an optional entry that is not an IGNORE -/
def NotIgnore (e : Option Entry) : Prop := ∀ q, e ≠ some (.ignore q)

private theorem ddGet_filter_ne (dd : List (Str × Entry)) (f g : Str) (h : (g == f) = false) :
    ddGet (dd.filter (·.1 != g)) f = ddGet dd f := by
  unfold ddGet
  congr 1
  induction dd with
  | nil => rfl
  | cons x rest ih =>
    simp only [List.filter_cons]
    by_cases hx : (x.1 != g) = true
    · simp only [hx, if_true, List.find?_cons]
      cases hxf : x.1 == f <;> simp [ih]
    · simp only [hx, Bool.false_eq_true, if_false, List.find?_cons]
      have hxg : x.1 = g := by simpa using hx
      have : (x.1 == f) = false := by rw [hxg]; exact h
      simp [this, ih]

private theorem verifyOne_fault (c : VCfg) (st : WalkSt) (rel : Str) (e : Option Entry) (k : Nat)
    (ho : c.w.obj? rel = some (.fault k)) (hi : NotIgnore e) : ∃ err, verifyOne c st rel e = .error err := by
  unfold verifyOne World.verifyPath
  rw [ho]
  cases e with
  | none => exact ⟨_, rfl⟩
  | some e =>
    cases e with
    | ignore q => exact absurd rfl (hi q)
    | timestamp ts => exact ⟨_, rfl⟩
    | file t q n cks => exact ⟨_, rfl⟩

/-- the loop over the file names of a directory raises when one of them - not
    hidden, not the top-level Manifest itself, not IGNOREd - is unreadable -/
theorem files_fold_unreadable (c : VCfg) (rel f : Str) (k : Nat) (hh : isHidden f = false)
    (htop : (relJoin rel f == c.topName) = false) (ho : c.w.obj? (relJoin rel f) = some (.fault k)) :
    ∀ (fs : List Str) (acc : WalkSt × List (Str × Entry)), f ∈ fs → NotIgnore (ddGet acc.2 f) →
      ∃ err, foldE (filesStep c rel) acc fs = .error err := by
  intro fs
  induction fs with
  | nil => intro _ h; cases h
  | cons g rest ih =>
    intro acc hmem hni
    simp only [foldE]
    by_cases hgf : g = f
    · subst hgf
      obtain ⟨err, he⟩ := verifyOne_fault c acc.1 (relJoin rel g) (ddGet acc.2 g) k ho hni
      simp [filesStep, hh, htop, he]
    · have hmem' : f ∈ rest := by
        rcases List.mem_cons.mp hmem with h | h
        · exact absurd h.symm hgf
        · exact h
      cases hs : filesStep c rel acc g with
      | error e => exact ⟨e, rfl⟩
      | ok acc' =>
        simp only
        apply ih acc' hmem'
        -- the entry looked up for `f` is unaffected by the step for another name
        unfold filesStep at hs
        split at hs
        · cases hs; exact hni
        · split at hs
          · cases hs; exact hni
          · split at hs
            · cases hs
            · cases hs
              simp only
              rw [ddGet_filter_ne _ f g (by simpa using hgf)]
              exact hni

private theorem ddGet_mem (dd : List (Str × Entry)) (f : Str) (e : Entry) (h : ddGet dd f = some e) :
    ∃ g, (g, e) ∈ dd ∧ (g == f) = true := by
  unfold ddGet at h
  cases hf : dd.find? (·.1 == f) with
  | none => simp [hf] at h
  | some x =>
    simp only [hf, Option.map_some, Option.some.injEq] at h
    exact ⟨x.1, by rw [← h]; exact List.mem_of_find?_eq_some hf, by simpa using List.find?_some hf⟩

/-- **an unreadable file in a visited directory makes the visit raise** (it is never
    passed over as if it did not exist): the file is listed by the directory, is
    not hidden, is not the top-level Manifest being verified, and no entry for
    its name is an IGNORE; it may be listed in the Manifest or be a stray. -/
theorem C06_visitDir_unreadable_file (c : VCfg) (st : WalkSt) (sys rel f : Str) (dev ino : Nat)
    (kids : List (Str × Node)) (k : Nat) (asd : Bool)
    (hkid : (f, Node.unreadable k asd) ∈ kids) (hasd : asd = false) (hh : isHidden f = false)
    (htop : (relJoin rel f == c.topName) = false) (ho : c.w.obj? (relJoin rel f) = some (.fault k))
    (hni : ∀ g e, (g, e) ∈ edGet st.ed rel → (g == f) = true → e.isIgnore = false) :
    ∃ err, visitDir c st sys rel dev ino kids = .error err := by
  unfold visitDir
  split
  · exact ⟨_, rfl⟩
  · split
    · exact ⟨_, rfl⟩
    · have hf : f ∈ (prune st sys rel dev ino kids).filenames := by
        simp only [prune, List.mem_map, List.mem_filter]
        exact ⟨(f, .unreadable k asd), ⟨hkid, by simp [Node.isDirNode, hasd]⟩, rfl⟩
      have hni' : NotIgnore (ddGet (prune st sys rel dev ino kids).dirdict1 f) := by
        intro q hq
        obtain ⟨g, hg, hgf⟩ := ddGet_mem _ f _ hq
        simp only [prune, List.mem_filter] at hg
        have := hni g (.ignore q) (by simpa [edPop] using hg.1) hgf
        simp [Entry.isIgnore] at this
      obtain ⟨err, he⟩ := files_fold_unreadable c rel f k hh htop ho _
        ((prune st sys rel dev ino kids).st1, (prune st sys rel dev ino kids).dirdict1) hf hni'
      simp only
      rw [he]
      exact ⟨err, rfl⟩

/-- `os.walk` reaching a directory it cannot list raises (`onerror=throw_exception`) -/
theorem C06_walk_unreadable_dir (c : VCfg) (st : WalkSt) (sys rel : Str) (k : Nat) :
    walkDir c st sys rel (.unreadable k true) = .error (.os (.code k)) := by
  simp [walkDir]

/-- an error below is an error of the whole walk: if descending into a kept
    child raises in every state, so does the walk over the children -/
theorem C06_walkKids_propagates (c : VCfg) (sys rel nm : Str) (ch : Node) (keep : List Str)
    (hkeep : keep.contains nm = true)
    (hch : ∀ st, ∃ e, walkDir c st (pjoin sys nm) (relJoin rel nm) ch = .error e) :
    ∀ (kids : List (Str × Node)) (st : WalkSt), (nm, ch) ∈ kids → ∃ e, walkKids c st sys rel keep kids = .error e := by
  intro kids
  induction kids with
  | nil => intro _ h; cases h
  | cons x rest ih =>
    intro st hmem
    obtain ⟨n, cx⟩ := x
    simp only [walkKids]
    rcases List.mem_cons.mp hmem with h | h
    · cases h
      simp only [hkeep, if_true]
      obtain ⟨e, he⟩ := hch st
      rw [he]; exact ⟨e, rfl⟩
    · by_cases hk : keep.contains n = true
      · simp only [hk, if_true]
        cases hw : walkDir c st (pjoin sys n) (relJoin rel n) cx with
        | error e => exact ⟨e, rfl⟩
        | ok st' => exact ih st' h
      · simp only [hk, Bool.false_eq_true, if_false]
        exact ih st h

private theorem visitDir_keep (c : VCfg) (st st' : WalkSt) (sys rel : Str) (dev ino : Nat) (kids : List (Str × Node))
    (keep : List Str) (h : visitDir c st sys rel dev ino kids = .ok (st', keep)) :
    keep = (prune st sys rel dev ino kids).keep := by
  unfold visitDir at h
  split at h
  · cases h
  · split at h
    · cases h
    · simp only at h
      split at h
      · cases h
      · split at h
        · cases h
        · cases h; rfl

/-- **an error anywhere below a visited directory is an error of the walk**: a
    child directory that is descended into (not hidden, no entry for its name
    in the directory's dict) and whose walk raises makes the parent's walk raise.
    With `C06_walk_unreadable_dir` / `C06_visitDir_unreadable_file` at the
    bottom this chains to any depth. -/
theorem C06_walkDir_propagates (c : VCfg) (st : WalkSt) (sys rel nm : Str) (dev ino : Nat)
    (kids : List (Str × Node)) (ch : Node)
    (hkid : (nm, ch) ∈ kids) (hdir : ch.isDirNode = true) (hh : isHidden nm = false)
    (hnone : (ddGet (edGet st.ed rel) nm).isNone = true)
    (hch : ∀ st', ∃ e, walkDir c st' (pjoin sys nm) (relJoin rel nm) ch = .error e) :
    ∃ e, walkDir c st sys rel (.dir dev ino kids) = .error e := by
  simp only [walkDir]
  cases hv : visitDir c st sys rel dev ino kids with
  | error e => exact ⟨e, rfl⟩
  | ok r =>
    obtain ⟨st', keep⟩ := r
    simp only
    have hk := visitDir_keep c st st' sys rel dev ino kids keep hv
    have hkeep : keep.contains nm = true := by
      rw [hk]
      simp only [prune, List.contains_iff_mem, List.mem_filter, List.mem_map]
      refine ⟨⟨(nm, ch), ⟨hkid, hdir⟩, rfl⟩, ?_⟩
      simp [hh, edPop, hnone]
    exact C06_walkKids_propagates c sys rel nm ch keep hkeep hch kids st' hkid

/-- an unreadable sub-directory that the walk would descend into makes verification raise -/
theorem C06_walkDir_unreadable_subdir (c : VCfg) (st : WalkSt) (sys rel nm : Str) (dev ino : Nat)
    (kids : List (Str × Node)) (k : Nat)
    (hkid : (nm, Node.unreadable k true) ∈ kids) (hh : isHidden nm = false)
    (hnone : (ddGet (edGet st.ed rel) nm).isNone = true) :
    ∃ e, walkDir c st sys rel (.dir dev ino kids) = .error e :=
  C06_walkDir_propagates c st sys rel nm dev ino kids _ hkid rfl hh hnone
    (fun st' => ⟨_, C06_walk_unreadable_dir c st' _ _ k⟩)

/-- a raising walk is a raising `assert_directory_verifies`: it never returns a verdict -/
theorem C06_assert_raises_if_walk_raises (w : World) (l l' : Loader) (path rel : Str) (h : Handler) (lm : Option Int)
    (ed : EntryDict) (e : Err)
    (hed : l.getFileEntryDict w path = .ok (l', ed)) (hrel : relpathOrEmpty? path [] = some rel)
    (hw : walkFrom ⟨w, l.top, l.dev?, h, lm⟩ { ed := ed } path rel (w.obj? path) = .error e) :
    l.assertDirectoryVerifies w path h lm = .error e := by
  simp [Loader.assertDirectoryVerifies, hed, hrel, hw]

/-- non-vacuity: a directory with one listed file and one unreadable stray: the visit raises EACCES (13) -/
example :
    let kids : List (Str × Node) := [([97], .file ⟨1, 1, 1, 0, [], none⟩), ([98], .unreadable 13 false)]
    let w : World := ⟨.dir 1 1 kids⟩
    let c : VCfg := ⟨w, [77], none, .raise, none⟩
    visitDir c { ed := [([], [([97], .file .DATA [97] 1 [])])] } sysRoot [] 1 1 kids = .error (.os (.code 13)) := by
  intro kids w c; rfl

/-! ## Part C: a failing update writes nothing -/
open Gemato.Cli in
/-- **an error during the scan fails the whole update command with that error** -
    the save step, the only producer of file-system writes, is never reached -/
theorem C06_scan_error_fails_update (w : World) (post : Str → Option FileMeta) (top path : Str) (create : Bool)
    (prof : Prof.Profile) (xdev : Bool) (o : U.Opts) (setTs : Option (Ts × Bool)) (so : U.SaveOpts) (doSave : Bool)
    (sign : SignCfg) (s : U.St) (e : Err) (hopen : U.openForUpdate w top create prof xdev = .ok s)
    (hscan : U.updateDir w { s with signOpt := sign.opt, topSigned := sign.topSigned, keyUsable := sign.keyUsable } path o
      = .error e) :
    updateCommand w post top path create prof xdev o setTs so doSave sign = .error e := by
  simp only [updateCommand, hopen, hscan]

open Gemato.Cli in
/-- every write of a successful update command is a write of its save step -/
theorem C06_writes_only_from_save (w : World) (post : Str → Option FileMeta) (top path : Str) (create : Bool)
    (prof : Prof.Profile) (xdev : Bool) (o : U.Opts) (setTs : Option (Ts × Bool)) (so : U.SaveOpts) (doSave : Bool)
    (sign : SignCfg) (s' : U.St) (ws : List U.Write)
    (h : updateCommand w post top path create prof xdev o setTs so doSave sign = .ok (s', ws)) :
    ws = [] ∨ ∃ s1, U.saveAll w post (applyTimestamp s1 setTs) so = .ok (s', ws) := by
  unfold updateCommand at h
  cases ho : U.openForUpdate w top create prof xdev with
  | error e => simp [ho] at h
  | ok s =>
    simp only [ho] at h
    split at h
    · cases h
    · rename_i s1 hu
      by_cases hd : doSave = true
      · simp only [hd, if_true] at h
        exact Or.inr ⟨s1, h⟩
      · simp only [hd, Bool.false_eq_true, if_false, Except.ok.injEq, Prod.mk.injEq] at h
        exact Or.inl h.2.symm

/-! ## Part D: the two models agree -/

/-- the call outcomes an object of the tree-level model stands for -/
def callsOf (o : Obj) : Calls :=
  match o with
  | .absent => { open_ := .error ENOENT, fstat := .error 0, stat := .error 0, fdopen := .error 0, read := .error 0, badHash := false }
  | .notdir => { open_ := .error 20, fstat := .error 0, stat := .error 0, fdopen := .error 0, read := .error 0, badHash := false }
  | .fault k => { open_ := .error k, fstat := .error k, stat := .error k, fdopen := .error k, read := .error k, badHash := false }
  | .dir d _ _ => { open_ := .ok (), fstat := .ok ⟨.nonreg, d, 0, 0⟩, stat := .ok ⟨.nonreg, d, 0, 0⟩, fdopen := .error 21,
                    read := .error 21, badHash := false }
  | .special d => { open_ := .error ENXIO, fstat := .error 0, stat := .ok ⟨.nonreg, d, 0, 0⟩, fdopen := .error 0, read := .error 0,
                    badHash := false }
  | .file m => { open_ := .ok (), fstat := .ok ⟨.reg, m.dev, m.stSize, m.mtime⟩, stat := .ok ⟨.reg, m.dev, m.stSize, m.mtime⟩,
                 fdopen := .ok (), read := .ok (m.size, m.digests), badHash := false }

/-- errors of the two models correspond up to the path carried by a cross-device error and the spelling of ENOTDIR -/
def sameOutcome : Except Err Bool → Except Err Bool → Prop
  | .ok a, .ok b => a = b
  | .error (.crossDevice _), .error (.crossDevice _) => True
  | .error (.os (.code 20)), .error (.os .ENOTDIR) => True
  | .error a, .error b => a = b
  | _, _ => False

/-- **refinement**: on an object without faults beyond what the tree-level model
    expresses, with supported hash names and known digests, `verify_path` of the
    call-level model computes what the tree-level `verifyObj` computes -/
theorem C06_calls_refine_obj (o : Obj) (p : Str) (e : Option Entry) (dev? : Option Nat) (lm : Option Int)
    (hk : ∀ k, o = .fault k → k ≠ ENOENT ∧ k ≠ ENXIO ∧ k ≠ EOPNOTSUPP ∧ k ≠ 20)
    (hsup : ∀ t q n cks m, e = some (.file t q n cks) → o = .file m →
      cks.any (fun kv => (Hash.hashlibName? kv.1).isNone) = false ∧
      cks.any (fun kv => (m.digests.find? (·.1 == kv.1)).isNone) = false) :
    sameOutcome (verifyPathC (callsOf o) e dev? lm).1 (verifyObj o p e dev? lm) := by
  cases e with
  | none =>
    cases o with
    | absent => simp [verifyPathC, callsOf, openStage, verifyObj, sameOutcome]
    | notdir => simp [verifyPathC, callsOf, openStage, verifyObj, sameOutcome, ENOENT, ENXIO, EOPNOTSUPP, osErr]
    | fault k =>
      obtain ⟨h1, h2, h3, h4⟩ := hk k rfl
      simp [verifyPathC, callsOf, openStage, verifyObj, sameOutcome, h1, h2, h3, osErr]
    | dir d i ks => simp [verifyPathC, callsOf, openStage, verifyObj, sameOutcome]
    | special d => simp [verifyPathC, callsOf, openStage, verifyObj, sameOutcome, ENOENT, ENXIO]
    | file m => simp [verifyPathC, callsOf, openStage, verifyObj, sameOutcome]
  | some en =>
    cases en with
    | timestamp ts => simp [verifyPathC, verifyObj, sameOutcome]
    | ignore q => simp [verifyPathC, verifyObj, sameOutcome]
    | file t q n cks =>
      cases o with
      | absent => simp [verifyPathC, callsOf, openStage, verifyObj, sameOutcome]
      | notdir => simp [verifyPathC, callsOf, openStage, verifyObj, sameOutcome, ENOENT, ENXIO, EOPNOTSUPP, osErr]
      | fault k =>
        obtain ⟨h1, h2, h3, h4⟩ := hk k rfl
        simp [verifyPathC, callsOf, openStage, verifyObj, sameOutcome, h1, h2, h3, osErr]
      | dir d i ks =>
        simp only [verifyPathC, callsOf, openStage, verifyObj, statOf, if_true]
        by_cases hd : devBad dev? d = true <;> simp [hd, sameOutcome]
      | special d =>
        simp only [verifyPathC, callsOf, openStage, verifyObj, statOf, ENOENT, ENXIO]
        by_cases hd : devBad dev? d = true <;> simp [hd, sameOutcome]
      | file m =>
        obtain ⟨hs1, hs2⟩ := hsup t q n cks m rfl rfl
        simp only [verifyPathC, callsOf, openStage, verifyObj, statOf, if_true]
        by_cases hd : devBad dev? m.dev = true
        · simp [hd, sameOutcome]
        · simp only [hd, Bool.false_eq_true, if_false, ne_eq, not_true_eq_false, fileCheck]
          by_cases h3 : m.stSize ≠ 0 ∧ m.stSize ≠ n
          · rw [if_pos h3, if_pos h3]; simp [sameOutcome]
          · rw [if_neg h3, if_neg h3]
            have hskip : skipSt ⟨.reg, m.dev, m.stSize, m.mtime⟩ lm = mtimeSkip m lm := by
              cases lm <;> rfl
            rw [hskip]
            by_cases h4 : mtimeSkip m lm = true
            · simp [h4, sameOutcome]
            · simp [h4, readStage, digestsMatch, hs1, hs2, sameOutcome]

end Gemato.Props.C06
