import Gemato.Props.C02
/-
  C02 — the hash chain at any depth, as an invariant of the loader.

  `Trusted w top lm`: every loaded Manifest other than the top-level one is named by a MANIFEST entry of a
  loaded Manifest and matched the size and every checksum of that entry (on the bytes the world holds) before
  it was parsed, and its entries are what parsing those bytes gives. The invariant
  * holds for a freshly opened loader (`trusted_open`),
  * is preserved by every round of loading with verification on (`loadAll_trusted`), hence by
    `load_manifests_for_path` for any number of rounds (`loadManifestsForPath_trusted`), hence by **every
    sequence** of the public operations - lookups, single-path verification, directory verification -
    (`C02_chain_invariant`), to any depth of nesting, by induction.
-/
namespace Gemato.C02
open Gemato.L1

/-- what reading and parsing a Manifest file yields does not depend on the entry it was checked against -/
theorem loadOne_result_indep (w : World) (p : Str) (a b : Option Entry) (es es' : List Entry)
    (ha : loadOne w p a = .ok es) (hb : loadOne w p b = .ok es') : es = es' := by
  have key : ∀ (x : Option Entry) (r : List Entry), loadOne w p x = .ok r → loadOne w p none = .ok r := by
    intro x r hx
    cases x with
    | none => exact hx
    | some e =>
      unfold loadOne at hx ⊢
      simp only [bind, Except.bind] at hx ⊢
      cases hv : w.verifyPath p (some e) none none with
      | error err => simp [hv] at hx
      | ok ok =>
        cases ok
        · simp [hv, throw, throwThe, MonadExceptOf.throw] at hx
        · simpa [hv, pure, Except.pure] using hx
  have h1 := key a es ha
  have h2 := key b es' hb
  rw [h1] at h2
  cases h2; rfl

/-- the chain invariant of the loaded set -/
def Trusted (w : World) (top : Str) (lm : LoadedMs) : Prop :=
  ∀ p es, (p, es) ∈ lm → p = top ∨
    ∃ q qes e, (q, qes) ∈ lm ∧ e ∈ qes ∧ e.isManifest = true ∧ pjoin (dirname q) e.fullPath = p ∧
      w.verifyPath p (some e) none none = .ok true ∧ loadOne w p (some e) = .ok es

/-- values of the loaded set are what `loadOne` gives for their path -/
def Faithful (w : World) (lm : LoadedMs) : Prop := ∀ p es, (p, es) ∈ lm → ∃ oe, loadOne w p oe = .ok es

theorem lmSet_mem (lm : LoadedMs) (k : Str) (v : List Entry) (p : Str) (es : List Entry) (h : (p, es) ∈ lmSet lm k v) :
    (p, es) ∈ lm ∨ (p = k ∧ es = v) := by
  unfold lmSet at h
  split at h
  · simp only [List.mem_map] at h
    obtain ⟨kv, hkv, hx⟩ := h
    split at hx
    · cases hx; exact Or.inr ⟨rfl, rfl⟩
    · subst hx; exact Or.inl hkv
  · rcases List.mem_append.mp h with h | h
    · exact Or.inl h
    · simp only [List.mem_singleton, Prod.mk.injEq] at h; exact Or.inr h

/-- setting a key to the value it already has (up to what `loadOne` determines) keeps every member -/
theorem lmSet_keeps (w : World) (lm : LoadedMs) (hf : Faithful w lm) (k : Str) (v : List Entry) (oe : Option Entry)
    (hv : loadOne w k oe = .ok v) (p : Str) (es : List Entry) (h : (p, es) ∈ lm) : (p, es) ∈ lmSet lm k v := by
  unfold lmSet
  split
  · simp only [List.mem_map]
    by_cases hk : (p == k) = true
    · have hpk : p = k := by simpa using hk
      subst hpk
      obtain ⟨oe', hoe'⟩ := hf p es h
      have : es = v := loadOne_result_indep w p oe' oe es v hoe' hv
      subst this
      exact ⟨(p, es), h, by simp⟩
    · exact ⟨(p, es), h, by simp [hk]⟩
  · exact List.mem_append_left _ h

theorem lmSet_faithful (w : World) (lm : LoadedMs) (hf : Faithful w lm) (k : Str) (v : List Entry) (oe : Option Entry)
    (hv : loadOne w k oe = .ok v) : Faithful w (lmSet lm k v) := by
  intro p es h
  rcases lmSet_mem lm k v p es h with h | ⟨rfl, rfl⟩
  · exact hf p es h
  · exact ⟨oe, hv⟩

/-- one round, item by item: members persist, and every new member comes from `loadOne` on a queued item -/
theorem loadAll_mono (w : World) : ∀ (tl : List (Str × Option Entry)) (lm lm' : LoadedMs), Faithful w lm →
    loadAll w lm tl = .ok lm' → (∀ p es, (p, es) ∈ lm → (p, es) ∈ lm') ∧ Faithful w lm'
  | [], lm, lm', hf, h => by simp [loadAll] at h; subst h; exact ⟨fun _ _ hm => hm, hf⟩
  | (p0, oe0) :: rest, lm, lm', hf, h => by
    simp only [loadAll] at h
    cases hl : loadOne w p0 oe0 with
    | error e => simp [hl] at h
    | ok es0 =>
      simp only [hl] at h
      obtain ⟨m1, f1⟩ := loadAll_mono w rest (lmSet lm p0 es0) lm' (lmSet_faithful w lm hf p0 es0 oe0 hl) h
      exact ⟨fun p es hm => m1 p es (lmSet_keeps w lm hf p0 es0 oe0 hl p es hm), f1⟩

/-- **a verifying round preserves the chain invariant** -/
theorem loadAll_trusted (w : World) (top : Str) (lm lm' : LoadedMs) (path : Str) (r : Bool)
    (hf : Faithful w lm) (ht : Trusted w top lm) (h : loadAll w lm (toLoad lm path r true) = .ok lm') :
    Trusted w top lm' ∧ Faithful w lm' := by
  obtain ⟨mono, hf'⟩ := loadAll_mono w _ lm lm' hf h
  refine ⟨?_, hf'⟩
  intro p es hm
  rcases C02_round_trusted w lm lm' path r h p es hm with hold | ⟨q, qes, e, hq, he, hman, hp, hv, hl⟩
  · rcases ht p es hold with h1 | ⟨q, qes, e, hq, rest⟩
    · exact Or.inl h1
    · exact Or.inr ⟨q, qes, e, mono q qes hq, rest⟩
  · exact Or.inr ⟨q, qes, e, mono q qes hq, he, hman, hp, hv, hl⟩

/-- **`load_manifests_for_path` with verification on preserves the chain invariant**, for any number of rounds -/
theorem loadManifestsForPath_trusted (w : World) (top path : Str) (r : Bool) :
    ∀ (fuel : Nat) (lm lm' : LoadedMs), Faithful w lm → Trusted w top lm →
      loadManifestsForPath w path r true fuel lm = .ok lm' → Trusted w top lm' ∧ Faithful w lm' := by
  intro fuel
  induction fuel with
  | zero => intro lm lm' _ _ h; simp [loadManifestsForPath] at h
  | succ n ih =>
    intro lm lm' hf ht h
    simp only [loadManifestsForPath] at h
    split at h
    · cases h; exact ⟨ht, hf⟩
    · rename_i tl htl
      cases hl : loadAll w lm (toLoad lm path r true) with
      | error e => simp [hl] at h
      | ok lm1 =>
        simp only [hl] at h
        obtain ⟨t1, f1⟩ := loadAll_trusted w top lm lm1 path r hf ht hl
        exact ih lm1 lm' f1 t1 h

/-- a freshly opened loader satisfies the invariant: only the top-level Manifest is loaded -/
theorem trusted_open (w : World) (top : Str) (xdev : Bool) (l : Loader) (h : openLoader w top xdev = .ok l) :
    l.top = top ∧ Trusted w top l.loaded ∧ Faithful w l.loaded := by
  unfold openLoader at h
  simp only [bind, Except.bind] at h
  cases hl : loadOne w top none with
  | error e => simp [hl] at h
  | ok es =>
    simp only [hl] at h
    split at h
    · cases h
    · simp only [pure, Except.pure, Except.ok.injEq] at h
      subst h
      refine ⟨rfl, ?_, ?_⟩
      · intro p es' hm
        simp only [List.mem_singleton, Prod.mk.injEq] at hm
        exact Or.inl hm.1
      · intro p es' hm
        simp only [List.mem_singleton, Prod.mk.injEq] at hm
        obtain ⟨rfl, rfl⟩ := hm
        exact ⟨none, hl⟩

/-- the public operations of the loader that read the chain -/
inductive Op
  | findPathEntry (path : Str)
  | verifyPath (path : Str)
  | assertPathVerifies (path : Str)
  | findDistEntry (filename relpath : Str)
  | assertDirectoryVerifies (path : Str) (h : Handler) (lastMtime : Option Int)

/-- the loader after an operation (`none` = the operation raised: the loader object is unchanged) -/
def Op.run (w : World) (l : Loader) : Op → Loader
  | .findPathEntry p => match l.findPathEntry w p with | .ok (l', _) => l' | .error _ => l
  | .verifyPath p => match l.verifyPath w p with | .ok (l', _) => l' | .error _ => l
  | .assertPathVerifies p => match l.assertPathVerifies w p with | .ok l' => l' | .error _ => l
  | .findDistEntry f p => match l.findDistEntry w f p with | .ok (l', _) => l' | .error _ => l
  | .assertDirectoryVerifies p h lm => match l.assertDirectoryVerifies w p h lm with | .ok (l', _) => l' | .error _ => l

def Inv (w : World) (l : Loader) : Prop := Trusted w l.top l.loaded ∧ Faithful w l.loaded

theorem findPathEntry_inv (w : World) (l l' : Loader) (p : Str) (e : Option Entry) (hi : Inv w l)
    (h : l.findPathEntry w p = .ok (l', e)) : Inv w l' ∧ l'.top = l.top := by
  unfold Loader.findPathEntry at h
  simp only [bind, Except.bind] at h
  cases hl : loadManifestsForPath w p false true defaultFuel l.loaded with
  | error err => simp [hl] at h
  | ok lm =>
    simp only [hl, pure, Except.pure, Except.ok.injEq, Prod.mk.injEq] at h
    obtain ⟨rfl, _⟩ := h
    exact ⟨loadManifestsForPath_trusted w l.top p false defaultFuel l.loaded lm hi.2 hi.1 hl, rfl⟩

theorem op_inv (w : World) (l : Loader) (hi : Inv w l) (op : Op) : Inv w (op.run w l) ∧ (op.run w l).top = l.top := by
  cases op with
  | findPathEntry p =>
    simp only [Op.run]
    cases h : l.findPathEntry w p with
    | error e => exact ⟨hi, rfl⟩
    | ok r => exact findPathEntry_inv w l r.1 p r.2 hi h
  | verifyPath p =>
    simp only [Op.run]
    cases h : l.verifyPath w p with
    | error e => exact ⟨hi, rfl⟩
    | ok r =>
      unfold Loader.verifyPath at h
      simp only [bind, Except.bind] at h
      cases hf : l.findPathEntry w p with
      | error err => simp [hf] at h
      | ok r1 =>
        simp only [hf] at h
        cases hv : w.verifyPath p r1.2 none none with
        | error err => simp [hv] at h
        | ok b =>
          simp only [hv, pure, Except.pure, Except.ok.injEq] at h
          subst h
          exact findPathEntry_inv w l r1.1 p r1.2 hi hf
  | assertPathVerifies p =>
    simp only [Op.run]
    cases h : l.assertPathVerifies w p with
    | error e => exact ⟨hi, rfl⟩
    | ok l' =>
      unfold Loader.assertPathVerifies at h
      simp only [bind, Except.bind] at h
      cases hf : l.findPathEntry w p with
      | error err => simp [hf] at h
      | ok r1 =>
        simp only [hf] at h
        cases hv : w.verifyPath p r1.2 l.dev? none with
        | error err => simp [hv] at h
        | ok b =>
          simp only [hv] at h
          cases b
          · simp [throw, throwThe, MonadExceptOf.throw] at h
          · simp only [if_true, pure, Except.pure, Except.ok.injEq] at h
            subst h
            exact findPathEntry_inv w l r1.1 p r1.2 hi hf
  | findDistEntry f p =>
    simp only [Op.run]
    cases h : l.findDistEntry w f p with
    | error e => exact ⟨hi, rfl⟩
    | ok r =>
      unfold Loader.findDistEntry at h
      simp only [bind, Except.bind] at h
      cases hl : loadManifestsForPath w (p ++ [slash]) false true defaultFuel l.loaded with
      | error err => simp [hl] at h
      | ok lm =>
        simp only [hl, pure, Except.pure, Except.ok.injEq] at h
        subst h
        exact ⟨loadManifestsForPath_trusted w l.top _ false defaultFuel l.loaded lm hi.2 hi.1 hl, rfl⟩
  | assertDirectoryVerifies p hd lm =>
    simp only [Op.run]
    cases h : l.assertDirectoryVerifies w p hd lm with
    | error e => exact ⟨hi, rfl⟩
    | ok r =>
      unfold Loader.assertDirectoryVerifies at h
      cases hg : l.getFileEntryDict w p with
      | error err => simp [hg] at h
      | ok g =>
        obtain ⟨l1, ed⟩ := g
        simp only [hg] at h
        have hl1 : Inv w l1 ∧ l1.top = l.top := by
          unfold Loader.getFileEntryDict at hg
          simp only [bind, Except.bind] at hg
          cases hl : loadManifestsForPath w p true true defaultFuel l.loaded with
          | error err => simp [hl] at hg
          | ok lm1 =>
            simp only [hl] at hg
            cases hd' : entryDictFold p (iterManifests lm1 p true) with
            | error err => simp [hd'] at hg
            | ok d =>
              simp only [hd', pure, Except.pure, Except.ok.injEq, Prod.mk.injEq] at hg
              obtain ⟨rfl, _⟩ := hg
              exact ⟨loadManifestsForPath_trusted w l.top p true defaultFuel l.loaded lm1 hi.2 hi.1 hl, rfl⟩
        split at h
        · cases h
        · split at h
          · cases h
          · split at h
            · cases h
            · cases h; exact hl1

/-- **C02, at any depth and for any history of a verifying loader.** After opening a loader and performing any
    sequence of lookups and verifications, every loaded Manifest other than the top-level one (i) is named by a
    MANIFEST entry of another loaded Manifest, (ii) matched the size and every checksum of that entry, and (iii)
    holds exactly the entries that parsing those verified bytes gives. So whatever a lookup or verification
    consults - at any nesting depth - descends from the top-level Manifest through matching entries only. -/
theorem C02_chain_invariant (w : World) (top : Str) (xdev : Bool) (l0 : Loader) (h : openLoader w top xdev = .ok l0)
    (ops : List Op) : Trusted w top (ops.foldl (fun l op => op.run w l) l0).loaded := by
  obtain ⟨htop, ht, hf⟩ := trusted_open w top xdev l0 h
  have key : ∀ (ops : List Op) (l : Loader), Inv w l → l.top = top →
      Inv w (ops.foldl (fun l op => op.run w l) l) ∧ (ops.foldl (fun l op => op.run w l) l).top = top := by
    intro ops
    induction ops with
    | nil => intro l hi ht; exact ⟨hi, ht⟩
    | cons op rest ih =>
      intro l hi ht
      obtain ⟨hi', ht'⟩ := op_inv w l hi op
      exact ih (op.run w l) hi' (ht'.trans ht)
  obtain ⟨⟨t, _⟩, tp⟩ := key ops l0 ⟨by rw [htop]; exact ht, hf⟩ htop
  rw [tp] at t
  exact t

end Gemato.C02
