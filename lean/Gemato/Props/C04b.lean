import Gemato.Props.C04
/-
  C04, second half: the shape is also sufficient (so `C04_signed_shape` is an
  exact characterisation), truncation and misplaced armor are syntax errors,
  and bytes OpenPGP does not authenticate (trailing whitespace, line ends)
  cannot influence the entries.
-/
namespace Gemato.C04
open Gemato.C09

theorem loadLines_append (s : LoadSt) (a b : List Str) :
    loadLines s (a ++ b) = match loadLines s a with
      | .ok s' => loadLines s' b
      | .error e => .error e := by
  induction a generalizing s with
  | nil => simp [loadLines]
  | cons l a ih =>
    simp only [List.cons_append, loadLines]
    cases loadStep s l with
    | error e => rfl
    | ok s1 => exact ih s1

theorem fwd_pre (pre : List Str) (h : ∀ l ∈ pre, Inert l ∧ l ≠ lnBeginMsg) :
    loadLines ⟨.data, [], []⟩ pre = .ok ⟨.data, [], []⟩ := by
  induction pre with
  | nil => rfl
  | cons l pre ih =>
    obtain ⟨⟨ha, he⟩, hl⟩ := h l (by simp)
    simp only [loadLines, loadStep, hl, if_false, loadCommon, ha, Bool.false_eq_true, he, if_true]
    exact ih (fun x hx => h x (by simp [hx]))

theorem fwd_hdr (d : Str) (hdr : List Str)
    (h : ∀ l ∈ hdr, isBlank l = false ∧ startsWith l sNotDashEscaped = false) :
    loadLines ⟨.preamble, [], d⟩ hdr = .ok ⟨.preamble, [], d ++ hdr.flatten⟩ := by
  induction hdr generalizing d with
  | nil => simp [loadLines]
  | cons l hdr ih =>
    obtain ⟨hl, hn⟩ := h l (by simp)
    simp only [loadLines, loadStep, hl, Bool.not_false, if_true, hn, Bool.false_eq_true, if_false]
    rw [ih (d ++ l) (fun x hx => h x (by simp [hx]))]
    simp [List.append_assoc]

theorem fwd_body (acc : List Entry) (d : Str) (body : List Str) (es : List Entry)
    (hb : ∀ l ∈ body, l ≠ lnBeginSig) (he : linesEntries (body.map dashUnescape) = .ok es) :
    loadLines ⟨.signed, acc, d⟩ body = .ok ⟨.signed, acc ++ es, d ++ body.flatten⟩ := by
  induction body generalizing acc d es with
  | nil => simp [linesEntries] at he; subst he; simp [loadLines]
  | cons l body ih =>
    have hl := hb l (by simp)
    simp only [List.map_cons, linesEntries] at he
    cases hle : lineEntry (dashUnescape l) with
    | error e => simp [hle] at he
    | ok o =>
      simp only [hle] at he
      cases hrest : linesEntries (body.map dashUnescape) with
      | error e => simp [hrest] at he
      | ok es' =>
        simp only [hrest, Except.ok.injEq] at he
        subst he
        unfold lineEntry at hle
        simp only [loadLines, loadStep, hl, if_false, loadCommon]
        by_cases ha : armorLike (dashUnescape l) = true
        · simp [ha] at hle
        · simp only [ha, Bool.false_eq_true, if_false] at hle ⊢
          by_cases hemp : (splitWs (dashUnescape l)).isEmpty = true
          · simp only [hemp, if_true, Except.ok.injEq] at hle ⊢
            subst hle
            rw [ih acc (d ++ l) es' (fun x hx => hb x (by simp [hx])) hrest]
            simp [List.append_assoc]
          · simp only [hemp, Bool.false_eq_true, if_false] at hle ⊢
            cases hx : entryFromList (splitWs (dashUnescape l)) with
            | error e => simp [hx] at hle
            | ok e =>
              simp only [hx, Except.ok.injEq] at hle ⊢
              subst hle
              rw [ih (acc ++ [e]) (d ++ l) es' (fun x hx => hb x (by simp [hx])) hrest]
              simp [List.append_assoc]

theorem fwd_sig (acc : List Entry) (d : Str) (sig : List Str)
    (h : ∀ l ∈ sig, l ≠ lnEndSig ∧ armorLike l = false) :
    loadLines ⟨.signature, acc, d⟩ sig = .ok ⟨.signature, acc, d ++ sig.flatten⟩ := by
  induction sig generalizing d with
  | nil => simp [loadLines]
  | cons l sig ih =>
    obtain ⟨hl, ha⟩ := h l (by simp)
    simp only [loadLines, loadStep, hl, if_false, loadCommon, ha, Bool.false_eq_true]
    rw [ih (d ++ l) (fun x hx => h x (by simp [hx]))]
    simp [List.append_assoc]

theorem fwd_post (acc : List Entry) (d : Str) (post : List Str) (h : ∀ l ∈ post, Inert l) :
    loadLines ⟨.post, acc, d⟩ post = .ok ⟨.post, acc, d⟩ := by
  induction post with
  | nil => rfl
  | cons l post ih =>
    obtain ⟨ha, he⟩ := h l (by simp)
    simp only [loadLines, loadStep, loadCommon, ha, Bool.false_eq_true, if_false, he, if_true]
    exact ih (fun x hx => h x (by simp [hx]))

/-- **C04 (completeness of the signed shape).** Every line sequence of the
    shape loads as a signed Manifest with exactly those entries and exactly
    that block. Together with `C04_signed_shape`: an exact characterisation. -/
theorem C04_shape_accepted (ls : List Str) (es : List Entry) (blk : Str) (h : SignedShape ls es blk) :
    loadFromLines ls = .ok ⟨es, some blk⟩ := by
  obtain ⟨p, hp⟩ := h
  have hsep := blank_inert p.sep hp.sep_blank
  unfold loadFromLines
  rw [show ({} : LoadSt) = ⟨.data, [], []⟩ from rfl, hp.split, loadLines_append, fwd_pre p.pre hp.pre_inert]
  simp only [loadLines, loadStep, if_true, List.isEmpty_nil, Bool.not_true, Bool.false_eq_true, if_false,
    List.nil_append]
  rw [loadLines_append, fwd_hdr _ p.hdr hp.hdr_nonblank]
  simp only [loadLines, loadStep, hp.sep_blank, Bool.not_true, Bool.false_eq_true, if_false, loadCommon,
    hsep.1, hsep.2, if_true]
  rw [loadLines_append, fwd_body [] _ p.body es hp.body_no_sig hp.entries]
  simp only [loadLines, loadStep, if_true]
  rw [loadLines_append, fwd_sig _ _ p.sig hp.sig_lines]
  simp only [loadLines, loadStep, if_true]
  rw [fwd_post _ _ p.post hp.post_inert]
  simp only [List.nil_append, hp.block]
  simp [List.flatten_append, List.append_assoc]

theorem C04_signed_iff (ls : List Str) (es : List Entry) (blk : Str) :
    loadFromLines ls = .ok ⟨es, some blk⟩ ↔ SignedShape ls es blk :=
  ⟨C04_signed_shape ls es blk, C04_shape_accepted ls es blk⟩

/-- truncated armor — the text ends inside the headers, the cleartext or the
    signature — is a syntax error -/
theorem C04_truncated_is_syntax_error (ls : List Str) (s : LoadSt) (h : loadLines {} ls = .ok s)
    (hs : s.st = .preamble ∨ s.st = .signed ∨ s.st = .signature) : loadFromLines ls = .error .syntax := by
  unfold loadFromLines
  rw [h]
  rcases hs with hs | hs | hs <;> simp [hs]

/-- misplaced armor: an armor-like line anywhere except the three places of the
    framework (and the unparsed header section) aborts the load — shown here
    for every state the common check runs in -/
theorem C04_misplaced_armor (s : LoadSt) (line : Str) (h : armorLike line = true) :
    loadCommon s line = .error .syntax := by
  simp [loadCommon, h]

-- bytes OpenPGP does not authenticate cannot influence the entries -------------------

theorem splitGo_trailing_ws (cur l ws : Str) (hws : ∀ c ∈ ws, isSpace c = true) :
    splitGo cur (l ++ ws) = splitGo cur l := by
  induction l generalizing cur with
  | nil =>
    simp only [List.nil_append]
    induction ws generalizing cur with
    | nil => rfl
    | cons c ws ih =>
      have hc := hws c (by simp)
      have hws' : ∀ c ∈ ws, isSpace c = true := fun x hx => hws x (by simp [hx])
      simp only [splitGo, hc, if_true]
      split
      · rename_i he; rw [ih hws' []]; simp [splitGo, he]
      · rename_i he; rw [ih hws' []]; simp [splitGo, he]
  | cons c l ih =>
    simp only [List.cons_append, splitGo]
    split
    · split
      · exact ih []
      · rw [ih []]
    · exact ih _

theorem lstrip_all_space (ws : Str) (h : ∀ c ∈ ws, isSpace c = true) : lstrip ws = [] := by
  induction ws with
  | nil => rfl
  | cons c ws ih => simp [lstrip, h c (by simp), ih (fun x hx => h x (by simp [hx]))]

theorem lstrip_append_nonspace (ws rest : Str) (h : ∀ c ∈ ws, isSpace c = true) :
    lstrip (ws ++ rest) = lstrip rest := by
  induction ws with
  | nil => rfl
  | cons c ws ih => simp [lstrip, h c (by simp), ih (fun x hx => h x (by simp [hx]))]

theorem rstrip_trailing_ws (l ws : Str) (hws : ∀ c ∈ ws, isSpace c = true) : rstrip (l ++ ws) = rstrip l := by
  unfold rstrip
  rw [List.reverse_append, lstrip_append_nonspace ws.reverse l.reverse (by
    intro c hc; exact hws c (List.mem_reverse.mp hc))]

theorem startsWith_dashes_trailing (l ws : Str) (hws : ∀ c ∈ ws, isSpace c = true) :
    startsWith (l ++ ws) dashes5 = startsWith l dashes5 := by
  have key : ∀ (pat : Str), (∀ c ∈ pat, isSpace c = false) → ∀ l : Str,
      startsWith (l ++ ws) pat = startsWith l pat := by
    intro pat hpat
    induction pat with
    | nil => intro l; cases l <;> cases ws <;> rfl
    | cons p pat ih =>
      intro l
      cases l with
      | nil =>
        cases ws with
        | nil => rfl
        | cons w ws' =>
          have hw := hws w (by simp)
          have hp := hpat p (by simp)
          have : w ≠ p := by intro e; subst e; rw [hw] at hp; cases hp
          simp [startsWith, this]
      | cons c l => simp [startsWith, ih (fun x hx => hpat x (by simp [hx])) l]
  exact key dashes5 (by decide) l

/-- trailing whitespace of a line — which RFC 4880 excludes from what a
    cleartext signature authenticates, as it does the line ending — never
    influences what the line is parsed into -/
theorem C04_trailing_ws_irrelevant (l ws : Str) (hws : ∀ c ∈ ws, isSpace c = true) :
    lineEntry (l ++ ws) = lineEntry l := by
  unfold lineEntry armorLike splitWs
  rw [splitGo_trailing_ws [] l ws hws, rstrip_trailing_ws l ws hws, startsWith_dashes_trailing l ws hws]

-- non-vacuity: a concrete signed text of the shape ---------------------------------------
example : SignedShape
    [[10], lnBeginMsg, [72, 10], [10], [45, 32, 73, 71, 78, 79, 82, 69, 32, 120, 10], lnBeginSig, [65, 10], lnEndSig, [32, 10]]
    [.ignore [120]]
    (lnBeginMsg ++ [72, 10] ++ [10] ++ [45, 32, 73, 71, 78, 79, 82, 69, 32, 120, 10] ++ lnBeginSig ++ [65, 10] ++ lnEndSig) := by
  refine ⟨⟨[[10]], [[72, 10]], [10], [[45, 32, 73, 71, 78, 79, 82, 69, 32, 120, 10]], [[65, 10]], [[32, 10]]⟩, ?_⟩
  constructor
  · rfl
  · intro l hl; simp at hl; subst hl; exact ⟨⟨by decide, by decide⟩, by decide⟩
  · decide
  · decide
  · decide
  · simp [linesEntries, lineEntry, dashUnescape, armorLike, startsWith, dashes5, splitWs, splitGo, isSpace, inRanges,
      spaceRanges, entryFromList, tagOf?, sTIMESTAMP, sMANIFEST, sIGNORE, ignoreFromList, processPath, isAbs,
      decodePath, Except.map]
  · decide
  · intro l hl; simp at hl; subst hl; exact ⟨by decide, by decide⟩
  · simp [lnBeginMsg, lnBeginSig, lnEndSig, dashes5]

end Gemato.C04
