import Gemato.Props.C09
import Gemato.Proofs.Escape
import Gemato.Proofs.Split
import Gemato.Proofs.Numbers
import Gemato.Proofs.Cks
/-
  C08 — Manifest text round-trips: writer and parser are mutual inverses.
  All statements are for entry lists and texts of any length.
-/
namespace Gemato.C08
open Gemato.C09

/-- a path the format can carry: non-empty, relative, made of code points
    (lone surrogates allowed) -/
def PathOK (p : Str) : Prop := p ≠ [] ∧ isAbs p = false ∧ ∀ c ∈ p, c < 0x110000

/-- well-formed entries — exactly what the parser can produce (`C08_parsed_wf`)
    and what the writer can print -/
def WF : Entry → Prop
  | .timestamp t => t.valid = true
  | .ignore p => PathOK p
  | .file t p n cks =>
    PathOK p ∧ (t = .DIST → 47 ∉ p) ∧ (toDec n).length ≤ maxStrDigits ∧ CksSorted cks ∧
    ∀ kv ∈ cks, FieldOK kv.1 ∧ FieldOK kv.2

-- writer output is made of proper fields ------------------------------------------

theorem fieldOK_of_digits (ds : Str) (hne : ds ≠ []) (h : ∀ d ∈ ds, 48 ≤ d ∧ d ≤ 57) : FieldOK ds := by
  refine ⟨hne, ?_⟩
  intro c hc
  have := h c hc
  simp only [isSpace, inRanges, spaceRanges, List.any, Bool.or_false]
  simp; omega

theorem fieldOK_toDec (n : Nat) : FieldOK (toDec n) :=
  fieldOK_of_digits _ (toDec_ne_nil n) (by
    intro d hd; have := toDec_digits n d hd; simp [isDigit] at this; omega)

theorem fieldOK_encodePath (p : Str) (h : p ≠ []) : FieldOK (encodePath p) :=
  ⟨encodePath_ne_nil p h, encodePath_no_space p⟩

theorem fieldOK_tag (t : FTag) : FieldOK t.name := by
  cases t <;> exact ⟨by decide, by decide⟩

theorem fieldOK_fmtTs (t : Ts) (hv : t.valid = true) : FieldOK (fmtTs t) := by
  obtain ⟨y, mo, d, h, mi, s⟩ := t
  simp only [Ts.valid, Bool.and_eq_true, decide_eq_true_eq] at hv
  obtain ⟨⟨⟨⟨⟨⟨⟨⟨hy1, hy2⟩, hm1⟩, hm2⟩, hd1⟩, hd2⟩, hh⟩, hmi⟩, hs⟩ := hv
  have hd3 := daysInMonth_le y mo
  refine ⟨by simp [fmtTs, pad4], ?_⟩
  intro c hc
  have hr : (48 ≤ c ∧ c ≤ 58) ∨ c = 45 ∨ c = 84 ∨ c = 90 := by
    simp only [fmtTs, List.mem_append, List.mem_cons, List.mem_singleton, List.mem_nil_iff, or_false] at hc
    rcases hc with (((((hc | hc | hc) | hc | hc) | hc | hc) | hc | hc) | hc | hc) | hc
    · have := pad4_mem y (by omega) c hc; left; omega
    · right; left; exact hc
    · have := pad2_mem mo (by omega) c hc; left; omega
    · right; left; exact hc
    · have := pad2_mem d (by omega) c hc; left; omega
    · right; right; left; exact hc
    · have := pad2_mem h (by omega) c hc; left; omega
    · left; omega
    · have := pad2_mem mi (by omega) c hc; left; omega
    · left; omega
    · have := pad2_mem s (by omega) c hc; left; omega
    · right; right; right; exact hc
  simp only [isSpace, inRanges, spaceRanges, List.any, Bool.or_false]
  simp; omega

theorem fieldOK_cksFields (cks : List (Str × Str)) (h : ∀ kv ∈ cks, FieldOK kv.1 ∧ FieldOK kv.2) :
    ∀ f ∈ cksFields cks, FieldOK f := by
  induction cks with
  | nil => simp [cksFields]
  | cons kv cks ih =>
    obtain ⟨k, v⟩ := kv
    intro f hf
    simp only [cksFields, List.mem_cons] at hf
    rcases hf with hf | hf | hf
    · rw [hf]; exact (h (k, v) (by simp)).1
    · rw [hf]; exact (h (k, v) (by simp)).2
    · exact ih (fun x hx => h x (by simp [hx])) f hf

theorem fields_ok (e : Entry) (h : WF e) : ∀ f ∈ entryToList e, FieldOK f := by
  cases e with
  | timestamp t =>
    intro f hf; simp only [entryToList, List.mem_cons, List.mem_nil_iff, or_false] at hf
    rcases hf with hf | hf
    · subst hf; exact ⟨by decide, by decide⟩
    · subst hf; exact fieldOK_fmtTs t h
  | ignore p =>
    intro f hf; simp only [entryToList, List.mem_cons, List.mem_nil_iff, or_false] at hf
    rcases hf with hf | hf
    · subst hf; exact ⟨by decide, by decide⟩
    · subst hf; exact fieldOK_encodePath p h.1
  | file t p n cks =>
    obtain ⟨hp, _, _, _, hck⟩ := h
    intro f hf; simp only [entryToList, List.mem_cons] at hf
    rcases hf with hf | hf | hf | hf
    · subst hf; exact fieldOK_tag t
    · subst hf; exact fieldOK_encodePath p hp.1
    · subst hf; exact fieldOK_toDec n
    · exact fieldOK_cksFields cks hck f hf

/-- each entry occupies one line whose fields are separated by single spaces:
    splitting the written line on whitespace gives back exactly `to_list()` -/
theorem C08_one_line_fields (e : Entry) (h : WF e) : splitWs (entryLine e) = entryToList e :=
  splitWs_joinSp_nl _ (fields_ok e h)

theorem joinSp_mem (fs : List Str) (c : Nat) (hc : c ∈ joinSp fs) : c = 32 ∨ ∃ f ∈ fs, c ∈ f := by
  induction fs with
  | nil => simp [joinSp] at hc
  | cons f fs ih =>
    cases fs with
    | nil => simp only [joinSp] at hc; exact Or.inr ⟨f, by simp, hc⟩
    | cons g gs =>
      simp only [joinSp, List.mem_append, List.mem_cons] at hc
      rcases hc with hc | hc | hc
      · exact Or.inr ⟨f, by simp, hc⟩
      · exact Or.inl hc
      · rcases ih hc with h | ⟨x, hx, hcx⟩
        · exact Or.inl h
        · exact Or.inr ⟨x, by simp [hx], hcx⟩

theorem line_chars (e : Entry) (h : WF e) (c : Nat) (hc : c ∈ joinSp (entryToList e)) : c ≠ 10 ∧ c ≠ 13 := by
  rcases joinSp_mem _ c hc with h32 | ⟨f, hf, hcf⟩
  · subst h32; decide
  · have := (fields_ok e h f hf).2 c hcf
    constructor
    · intro e10; subst e10; simp [isSpace_nl] at this
    · intro e13; subst e13; revert this; decide

/-- ... and the line is terminated by its only "\n" (and holds no "\r") -/
theorem C08_one_line (e : Entry) (h : WF e) : LineOK (entryLine e) :=
  ⟨joinSp (entryToList e), rfl, fun hm => (line_chars e h 10 hm).1 rfl⟩

-- reader ∘ writer, one entry ----------------------------------------------------------

theorem processPath_encode (tag p : Str) (h : PathOK p) : processPath [tag, encodePath p] = .ok p := by
  obtain ⟨hne, hrel, hcp⟩ := h
  have h1 : (encodePath p).isEmpty = false := by
    cases he : encodePath p with
    | nil => exact absurd he (encodePath_ne_nil p hne)
    | cons _ _ => rfl
  have h2 : isAbs (encodePath p) = false := by
    have := encodePath_head p (by simpa [isAbs] using hrel)
    simpa [isAbs] using this
  simp [processPath, h1, h2, decodePath_encodePath p hcp, hrel]

theorem entryFromList_toList (e : Entry) (h : WF e) : entryFromList (entryToList e) = .ok e := by
  cases e with
  | timestamp t =>
    simp [entryToList, entryFromList, ts_lookup, timestampFromList, parseTs_fmtTs t h]
  | ignore p =>
    simp [entryToList, entryFromList, ign_lookup, ignoreFromList, processPath_encode _ p h]
  | file t p n cks =>
    obtain ⟨hp, hdist, hlen, hsorted, _⟩ := h
    have hd : ¬ (t = .DIST ∧ 47 ∈ p) := fun ⟨a, b⟩ => hdist a b
    simp [entryToList, entryFromList, ftag_lookup, fileFromList, processPath_encode _ p hp, hd,
      processChecksums, parseSize_toDec n hlen, parseCks_roundtrip cks hsorted]

theorem entryLine_head (e : Entry) : ∃ c rest, entryLine e = c :: rest ∧ c ≠ 45 := by
  have key : ∀ (tag : Str) (rest : List Str) (c : Nat) (tl : Str), tag = c :: tl → c ≠ 45 →
      ∃ c' r, joinSp (tag :: rest) ++ [10] = c' :: r ∧ c' ≠ 45 := by
    intro tag rest c tl htag hc
    subst htag
    cases rest with
    | nil => exact ⟨c, tl ++ [10], by simp [joinSp], hc⟩
    | cons g gs => exact ⟨c, tl ++ 32 :: (joinSp (g :: gs) ++ [10]), by simp [joinSp], hc⟩
  cases e with
  | timestamp t => exact key _ _ 84 _ rfl (by decide)
  | ignore p => exact key _ _ 73 _ rfl (by decide)
  | file t p n cks =>
    cases t
    · exact key _ _ 77 _ rfl (by decide)
    · exact key _ _ 68 _ rfl (by decide)
    · exact key _ _ 68 _ rfl (by decide)
    · exact key _ _ 69 _ rfl (by decide)
    · exact key _ _ 77 _ rfl (by decide)
    · exact key _ _ 65 _ rfl (by decide)

theorem entryLine_not_armor (e : Entry) : armorLike (entryLine e) = false ∧ entryLine e ≠ lnBeginMsg := by
  obtain ⟨c, rest, he, hc⟩ := entryLine_head e
  rw [he]
  constructor
  · simp [armorLike, dashes5, startsWith, hc]
  · intro h
    simp [lnBeginMsg, dashes5] at h
    exact hc h.1

theorem lineEntry_entryLine (e : Entry) (h : WF e) : lineEntry (entryLine e) = .ok (some e) := by
  unfold lineEntry
  rw [(entryLine_not_armor e).1, C08_one_line_fields e h, entryFromList_toList e h]
  cases e <;> simp [entryToList]

theorem linesEntries_map (es : List Entry) (h : ∀ e ∈ es, WF e) : linesEntries (es.map entryLine) = .ok es := by
  induction es with
  | nil => rfl
  | cons e es ih =>
    simp only [List.map_cons, linesEntries, lineEntry_entryLine e (h e (by simp)),
      ih (fun x hx => h x (by simp [hx]))]
    rfl

theorem dump_no_cr (es : List Entry) (h : ∀ e ∈ es, WF e) : 13 ∉ (es.map entryLine).flatten := by
  intro hm
  simp only [List.mem_flatten, List.mem_map] at hm
  obtain ⟨l, ⟨e, he, rfl⟩, hc⟩ := hm
  simp only [entryLine, List.mem_append, List.mem_singleton] at hc
  rcases hc with hc | hc
  · exact (line_chars e (h e he) 13 hc).2 rfl
  · cases hc

/-- **C08 (reader ∘ writer = id).** Writing any list of well-formed entries
    and reading the text back — through an `io.StringIO` or through a text file
    with universal newlines — yields equal entries, unsigned. -/
theorem C08_load_dump (es : List Entry) (h : ∀ e ∈ es, WF e) :
    loadText (dumpEntries false es) = .ok ⟨es, none⟩ ∧ loadFile (dumpEntries false es) = .ok ⟨es, none⟩ := by
  have hlines : splitLines (es.map entryLine).flatten = es.map entryLine :=
    splitLines_flatten _ (by
      intro l hl; simp only [List.mem_map] at hl; obtain ⟨e, he, rfl⟩ := hl; exact C08_one_line e (h e he))
  have hload : loadFromLines (es.map entryLine) = .ok ⟨es, none⟩ := by
    rw [C09_line_homomorphism _ (by
      intro l hl; simp only [List.mem_map] at hl; obtain ⟨e, _, rfl⟩ := hl; exact (entryLine_not_armor e).2),
      linesEntries_map es h]
  constructor
  · simp only [loadText, dumpEntries, Bool.false_eq_true, if_false, hlines, hload]
  · simp only [loadFile, dumpEntries, Bool.false_eq_true, if_false, univNewlines_id _ (dump_no_cr es h), hlines, hload]

theorem insertSorted_mem {α} (lt : α → α → Bool) (x y : α) (l : List α) : y ∈ insertSorted lt x l ↔ y = x ∨ y ∈ l := by
  induction l with
  | nil => simp [insertSorted]
  | cons a l ih =>
    simp only [insertSorted]
    split
    · simp [ih]; constructor
      · rintro (h | h | h); exact Or.inr (Or.inl h); exact Or.inl h; exact Or.inr (Or.inr h)
      · rintro (h | h | h); exact Or.inr (Or.inl h); exact Or.inl h; exact Or.inr (Or.inr h)
    · simp

theorem stableSort_mem {α} (lt : α → α → Bool) (y : α) (l : List α) : y ∈ stableSort lt l ↔ y ∈ l := by
  induction l with
  | nil => simp [stableSort]
  | cons a l ih =>
    have : stableSort lt (a :: l) = insertSorted lt a (stableSort lt l) := rfl
    rw [this, insertSorted_mem, ih]; simp

/-- with sorting enabled the text reads back as the sorted list -/
theorem C08_load_dump_sorted (es : List Entry) (h : ∀ e ∈ es, WF e) :
    loadFile (dumpEntries true es) = .ok ⟨stableSort entryLt es, none⟩ := by
  have := (C08_load_dump (stableSort entryLt es) (fun e he => h e ((stableSort_mem _ e es).mp he))).2
  simpa [dumpEntries] using this

end Gemato.C08
