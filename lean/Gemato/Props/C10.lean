import Gemato.Model.Save
import Gemato.Props.C13
/-
  C10 — Update never touches what it does not own.
  By construction of the model's types, `updateDir` and every verification and
  lookup function return no file-system write at all: the only producer of
  `Write` values is the write step of `save_manifests`. Proved here: what that
  step writes and unlinks are Manifest paths it was given (or the renamed form
  of one), refreshing MANIFEST entries writes nothing, and the primitive edits
  of the update (remove-first-equal, in-place refresh) leave every other entry
  object — in particular every DIST and TIMESTAMP entry — exactly as it was.
  The global statement over a whole update is decided by the correspondence
  runs (snapshot of every non-Manifest file; preserved entry multisets).
-/
namespace Gemato.C10
open Gemato.L1 Gemato.U

/-- the paths a write step for Manifest `mp` may touch: `mp` itself and its (de)compressed name -/
def Owned (o : SaveOpts) (mp : Str) : Write → Prop
  | .file p _ _ => p = mp ∨ p = mp ++ 46 :: o.format ∨ ∃ k, p = mp.take k
  | .unlink p => p = mp

/-- **only Manifest paths are written or unlinked** by the write step -/
theorem C10_write_step_owned (o : SaveOpts) (ss1 : SSt) (mp : Str) :
    ∃ new, (writeStep o ss1 mp).writes = ss1.writes ++ new ∧ ∀ w ∈ new, Owned o mp w := by
  cases hw : o.watermark with
  | none =>
    obtain ⟨_, text, sg, ht⟩ := C13.C13_no_watermark_no_rename o ss1 mp hw
    refine ⟨[.file mp text sg], ht, ?_⟩
    intro w hw'; simp at hw'; subst hw'; exact (Or.inl rfl : _ ∨ _)
  | some wm =>
    rcases C13.C13_watermark_cases o ss1 mp wm hw with ⟨text, sg, _, e2⟩ | ⟨newMp, text, sg, sg', hn, _, e2⟩
    · refine ⟨[_], e2, ?_⟩
      intro w hw'; simp at hw'; subst hw'; exact (Or.inl rfl : _ ∨ _)
    · refine ⟨[_, _, _], e2, ?_⟩
      intro w hw'
      simp at hw'
      rcases hw' with rfl | rfl | rfl
      · exact (Or.inl rfl : _ ∨ _)
      · show _ ∨ _ ∨ _
        rcases hn with hn | ⟨k, hn⟩
        · exact Or.inr (Or.inl hn)
        · exact Or.inr (Or.inr ⟨k, hn⟩)
      · show mp = mp
        rfl

/-- refreshing a MANIFEST entry writes nothing and renames nothing -/
theorem refreshStep_no_writes (w : World) (post : Str → Option FileMeta) (o : SaveOpts) (mp rel : Str)
    (acc acc' : SSt) (ie : IEntry) (h : refreshStep w post o mp rel acc ie = .ok acc') :
    acc'.writes = acc.writes ∧ acc'.renamed = acc.renamed := by
  unfold refreshStep at h
  split at h
  · simp only at h
    split at h
    · cases h; exact ⟨rfl, rfl⟩
    · split at h
      · cases h
      · split at h
        · cases h
        · split at h
          · cases h
          · cases h; exact ⟨rfl, rfl⟩
  · cases h; exact ⟨rfl, rfl⟩

theorem refresh_fold_no_writes (w : World) (post : Str → Option FileMeta) (o : SaveOpts) (mp rel : Str) :
    ∀ (es : List IEntry) (ss ss' : SSt), foldE (refreshStep w post o mp rel) ss es = .ok ss' →
      ss'.writes = ss.writes ∧ ss'.renamed = ss.renamed := by
  intro es
  induction es with
  | nil => intro ss ss' h; simp [foldE] at h; subst h; exact ⟨rfl, rfl⟩
  | cons ie es ih =>
    intro ss ss' h
    simp only [foldE] at h
    split at h
    · cases h
    · rename_i s1 hs1
      obtain ⟨k1, k2⟩ := refreshStep_no_writes w post o mp rel ss s1 ie hs1
      obtain ⟨h1, h2⟩ := ih s1 ss' h
      exact ⟨h1.trans k1, h2.trans k2⟩

/-- **C10 (what a save touches).** Everything the processing of one loaded Manifest adds
    to the list of writes is a write of that Manifest, of its renamed form, or the unlinking
    of the old name after a rename. -/
theorem C10_saveOne_owned (w : World) (post : Str → Option FileMeta) (o : SaveOpts) (ss ss' : SSt) (mp rel : Str)
    (h : saveOne w post o ss mp rel = .ok ss') :
    ∃ new, ss'.writes = ss.writes ++ new ∧ ∀ wr ∈ new, Owned o mp wr := by
  unfold saveOne at h
  split at h
  · cases h
  · rename_i ss1 h1
    obtain ⟨k1, _⟩ := refresh_fold_no_writes w post o mp rel _ ss ss1 h1
    split at h
    · cases h; exact ⟨[], by simp [k1], by simp⟩
    · split at h
      · cases h
      · cases h
        obtain ⟨new, e1, e2⟩ := C10_write_step_owned o ss1 mp
        exact ⟨new, by rw [e1, k1], e2⟩

-- the primitive edits of the update leave every other entry object alone -----------------------

theorem find_map_set (l : List (Str × List Nat)) (mp : Str) (ids : List Nat) (h : l.any (·.1 == mp) = true) :
    (l.map fun kv => if kv.1 == mp then (mp, ids) else kv).find? (·.1 == mp) = some (mp, ids) := by
  induction l with
  | nil => simp at h
  | cons a l ih =>
    by_cases ha : (a.1 == mp) = true
    · simp only [List.map_cons, ha, if_true, List.find?, beq_self_eq_true]
    · have hl : l.any (·.1 == mp) = true := by
        simp only [List.any_cons, Bool.or_eq_true] at h
        rcases h with h | h
        · exact absurd h ha
        · exact h
      simp only [List.map_cons, ha, Bool.false_eq_true, if_false, List.find?]
      exact ih hl

theorem find_append_new (l : List (Str × List Nat)) (mp : Str) (ids : List Nat) (h : l.any (·.1 == mp) = false) :
    (l ++ [(mp, ids)]).find? (·.1 == mp) = some (mp, ids) := by
  induction l with
  | nil => simp [List.find?]
  | cons a l ih =>
    simp only [List.any_cons, Bool.or_eq_false_iff] at h
    simp only [List.cons_append, List.find?, h.1]
    exact ih h.2

theorem idsOf_setIds (s : St) (mp : Str) (ids : List Nat) : (s.setIds mp ids).idsOf mp = ids := by
  unfold St.setIds St.idsOf
  by_cases h : s.loaded.any (·.1 == mp) = true
  · simp only [h, if_true, find_map_set s.loaded mp ids h]; rfl
  · have h' : s.loaded.any (·.1 == mp) = false := by
      cases hq : s.loaded.any (·.1 == mp) with
      | false => rfl
      | true => exact absurd hq h
    simp only [h', Bool.false_eq_true, if_false, find_append_new s.loaded mp ids h']; rfl

theorem setIds_heap (s : St) (mp : Str) (ids : List Nat) : (s.setIds mp ids).heap = s.heap := by
  unfold St.setIds; split <;> rfl

theorem go_spec (s : St) (x : Entry) : ∀ (l r : List Nat), St.removeFirstEq.go s x l = some r →
    ∃ pre id post, l = pre ++ id :: post ∧ s.val id = some x ∧ (∀ j ∈ pre, s.val j ≠ some x) ∧ r = pre ++ post := by
  intro l
  induction l with
  | nil => intro r h; simp [St.removeFirstEq.go] at h
  | cons id rest ih =>
    intro r h
    simp only [St.removeFirstEq.go] at h
    split at h
    · rename_i heq
      cases h
      exact ⟨[], id, rest, rfl, by simpa using heq, by simp, rfl⟩
    · rename_i hne
      cases hg : St.removeFirstEq.go s x rest with
      | none => simp [hg] at h
      | some r' =>
        simp [hg] at h; subst h
        obtain ⟨pre, i, post, e1, e2, e3, e4⟩ := ih r' hg
        refine ⟨id :: pre, i, post, by simp [e1], e2, ?_, by simp [e4]⟩
        intro j hj; simp at hj
        rcases hj with rfl | hj
        · simpa using hne
        · exact e3 j hj

/-- `list.remove(x)` removes exactly one entry object, the first whose value equals `x`;
    every other object stays in the list, in order, and no value changes -/
theorem removeFirstEq_spec (s s' : St) (mp : Str) (x : Entry) (h : s.removeFirstEq mp x = some s') :
    s'.heap = s.heap ∧
    ∃ pre id post, s.idsOf mp = pre ++ id :: post ∧ s.val id = some x ∧ (∀ j ∈ pre, s.val j ≠ some x) ∧
      s'.idsOf mp = pre ++ post := by
  unfold St.removeFirstEq at h
  cases hg : St.removeFirstEq.go s x (s.idsOf mp) with
  | none => simp [hg] at h
  | some ids =>
    simp [hg] at h; subst h
    obtain ⟨pre, i, post, e1, e2, e3, e4⟩ := go_spec s x _ _ hg
    exact ⟨setIds_heap s mp ids, pre, i, post, e1, e2, e3, by rw [idsOf_setIds, e4]⟩

/-- **only an entry equal to the one looked for can disappear**; the update looks only for
    values taken from its entry dict, which holds neither DIST nor TIMESTAMP entries, so those
    are never removed and never altered -/
theorem C10_removal_hits_only_equal (s s' : St) (mp : Str) (x : Entry) (h : s.removeFirstEq mp x = some s')
    (j : Nat) (hj : j ∈ s.idsOf mp) (hv : s.val j ≠ some x) : j ∈ s'.idsOf mp ∧ s'.val j = s.val j := by
  obtain ⟨hh, pre, id, post, e1, e2, e3, e4⟩ := removeFirstEq_spec s s' mp x h
  constructor
  · rw [e4]
    rw [e1] at hj
    simp at hj ⊢
    rcases hj with hj | rfl | hj
    · exact Or.inl hj
    · exact absurd e2 hv
    · exact Or.inr hj
  · unfold St.val; rw [hh]

theorem find_map_other (l : List IEntry) (id j : Nat) (e : Entry) (h : j ≠ id) :
    (l.map fun ie => if ie.1 == id then (id, e) else ie).find? (·.1 == j) = l.find? (·.1 == j) := by
  induction l with
  | nil => rfl
  | cons ie rest ih =>
    by_cases h1 : (ie.1 == id) = true
    · have e1 : ie.1 = id := by simpa using h1
      have hj : (id == j) = false := by simpa using fun e' => h e'.symm
      have hj' : (ie.1 == j) = false := by rw [e1]; exact hj
      simp only [List.map_cons, h1, if_true, List.find?, hj, hj']
      exact ih
    · simp only [List.map_cons, h1, Bool.false_eq_true, if_false, List.find?]
      cases hq : (ie.1 == j) with
      | true => rfl
      | false => exact ih

/-- an in-place refresh changes the value of exactly one entry object -/
theorem C10_refresh_touches_one (s : St) (id j : Nat) (e : Entry) (h : j ≠ id) : (s.setVal id e).val j = s.val j := by
  unfold St.setVal St.val
  simp only [find_map_other s.heap id j e h]

end Gemato.C10
