import Gemato.Model.VerifyDir
/-
  C07 — Every offending path is reported and the exit status reflects any
  failure. Theorems about keep-going verification (a handler that returns a
  verdict instead of raising), for trees of any size.
-/
namespace Gemato.C07
open Gemato.L1

/-- what the walk state must always satisfy under a keep-going handler `f`:
    the running result is the conjunction of the verdicts returned so far, and
    every path handed to the handler failed its check -/
structure Inv (c : VCfg) (f : Str → Bool) (st : WalkSt) : Prop where
  ret_eq : st.ret = st.calls.all f
  calls_failed : ∀ p ∈ st.calls, ∃ e, c.w.verifyPath p e c.dev? c.lastMtime = .ok false

theorem verifyOne_inv (c : VCfg) (f : Str → Bool) (hh : c.handler = .policy f) (st st' : WalkSt) (rel : Str)
    (e : Option Entry) (hi : Inv c f st) (h : verifyOne c st rel e = .ok st') :
    Inv c f st' ∧ st'.ed = st.ed ∧ st'.ids = st.ids ∧
      ((c.w.verifyPath rel e c.dev? c.lastMtime = .ok true ∧ st'.calls = st.calls) ∨
       (c.w.verifyPath rel e c.dev? c.lastMtime = .ok false ∧ st'.calls = st.calls ++ [rel])) := by
  unfold verifyOne at h
  cases hv : c.w.verifyPath rel e c.dev? c.lastMtime with
  | error err => simp [hv] at h
  | ok b =>
    cases b with
    | true =>
      simp [hv] at h; subst h
      exact ⟨hi, rfl, rfl, Or.inl ⟨rfl, rfl⟩⟩
    | false =>
      simp [hv, hh] at h; subst h
      refine ⟨⟨?_, ?_⟩, rfl, rfl, Or.inr ⟨rfl, rfl⟩⟩
      · simp [hi.ret_eq, List.all_append]
      · intro p hp
        simp at hp
        rcases hp with hp | hp
        · exact hi.calls_failed p hp
        · subst hp; exact ⟨e, hv⟩

/-- a fold of checks preserves the invariant -/
theorem fold_inv (c : VCfg) (f : Str → Bool) (hh : c.handler = .policy f) (pf : Str → Str)
    (dd : List (Str × Entry)) (st st' : WalkSt) (hi : Inv c f st)
    (h : foldE (leftoverStep c pf) st dd = .ok st') : Inv c f st' := by
  induction dd generalizing st with
  | nil => simp [foldE] at h; subst h; exact hi
  | cons fe dd ih =>
    simp only [foldE] at h
    cases hv : leftoverStep c pf st fe with
    | error err => simp [hv] at h
    | ok st1 =>
      simp only [hv] at h
      exact ih st1 (verifyOne_inv c f hh st st1 _ _ hi hv).1 h

theorem files_fold_inv (c : VCfg) (f : Str → Bool) (hh : c.handler = .policy f) (rel : Str)
    (fs : List Str) (acc acc' : WalkSt × List (Str × Entry)) (hi : Inv c f acc.1)
    (h : foldE (filesStep c rel) acc fs = .ok acc') : Inv c f acc'.1 := by
  induction fs generalizing acc with
  | nil => simp [foldE] at h; subst h; exact hi
  | cons fn fs ih =>
    simp only [foldE] at h
    cases hs : filesStep c rel acc fn with
    | error err => simp [hs] at h
    | ok acc1 =>
      simp only [hs] at h
      refine ih acc1 ?_ h
      unfold filesStep at hs
      split at hs
      · cases hs; exact hi
      · split at hs
        · cases hs; exact hi
        · split at hs
          · cases hs
          · rename_i st1 hv
            cases hs
            exact (verifyOne_inv c f hh _ _ _ _ hi hv).1

theorem visitDir_inv (c : VCfg) (f : Str → Bool) (hh : c.handler = .policy f) (st st' : WalkSt) (sys rel : Str)
    (dev ino : Nat) (kids : List (Str × Node)) (keep : List Str) (hi : Inv c f st)
    (h : visitDir c st sys rel dev ino kids = .ok (st', keep)) : Inv c f st' := by
  unfold visitDir at h
  split at h
  · cases h
  · split at h
    · cases h
    · simp only at h
      split at h
      · cases h
      · rename_i st2 dd2 hfiles
        split at h
        · cases h
        · rename_i st3 hleft
          cases h
          have hi1 : Inv c f (prune st sys rel dev ino kids).st1 := ⟨hi.ret_eq, hi.calls_failed⟩
          have hi2 := files_fold_inv c f hh rel _ _ (st2, dd2) hi1 hfiles
          exact fold_inv c f hh (relJoin rel) dd2 st2 _ hi2 hleft

mutual
theorem walkDir_inv (c : VCfg) (f : Str → Bool) (hh : c.handler = .policy f) :
    ∀ (n : Node) (st st' : WalkSt) (sys rel : Str), Inv c f st → walkDir c st sys rel n = .ok st' → Inv c f st'
  | .dir dev ino kids, st, st', sys, rel, hi, h => by
    simp only [walkDir] at h
    split at h
    · cases h
    · rename_i st1 keep hv
      exact walkKids_inv c f hh kids st1 st' sys rel keep (visitDir_inv c f hh st st1 sys rel dev ino kids keep hi hv) h
  | .file _, st, st', _, _, hi, h => by simp [walkDir] at h; subst h; exact hi
  | .special _, st, st', _, _, hi, h => by simp [walkDir] at h; subst h; exact hi
  | .dangling, st, st', _, _, hi, h => by simp [walkDir] at h; subst h; exact hi
  | .unreadable _ true, st, st', _, _, hi, h => by simp [walkDir] at h
  | .unreadable _ false, st, st', _, _, hi, h => by simp [walkDir] at h; subst h; exact hi
theorem walkKids_inv (c : VCfg) (f : Str → Bool) (hh : c.handler = .policy f) :
    ∀ (ks : List (Str × Node)) (st st' : WalkSt) (sys rel : Str) (keep : List Str), Inv c f st →
      walkKids c st sys rel keep ks = .ok st' → Inv c f st'
  | [], st, st', _, _, _, hi, h => by simp [walkKids] at h; subst h; exact hi
  | (nm, ch) :: rest, st, st', sys, rel, keep, hi, h => by
    simp only [walkKids] at h
    split at h
    · split at h
      · cases h
      · rename_i st1 hv
        exact walkKids_inv c f hh rest st1 st' sys rel keep (walkDir_inv c f hh ch st st1 _ _ hi hv) h
    · exact walkKids_inv c f hh rest st st' sys rel keep hi h
end

theorem missing_inv (c : VCfg) (f : Str → Bool) (hh : c.handler = .policy f) (ed : EntryDict) (st0 st' : WalkSt)
    (hi : Inv c f st0)
    (h : foldE (fun (acc : WalkSt) (dd : Str × List (Str × Entry)) => foldE (leftoverStep c (pjoin dd.1)) acc dd.2) st0 ed = .ok st') :
    Inv c f st' := by
  induction ed generalizing st0 with
  | nil => simp [foldE] at h; subst h; exact hi
  | cons dd rest ih =>
    simp only [foldE] at h
    cases hin : foldE (leftoverStep c (pjoin dd.1)) st0 dd.2 with
    | error err => simp [hin] at h
    | ok st1 =>
      simp only [hin] at h
      exact ih st1 (fold_inv c f hh (pjoin dd.1) dd.2 st0 st1 hi hin) h

/-- **C07 (result and calls).** In keep-going mode, for any tree and any
    handler policy: the overall result is failure exactly when at least one
    handler invocation returned failure, and the handler is invoked only for
    paths whose check failed. -/
theorem C07_result_iff (w : World) (l : Loader) (path : Str) (f : Str → Bool) (lm : Option Int)
    (l' : Loader) (r : VerifyResult)
    (h : l.assertDirectoryVerifies w path (.policy f) lm = .ok (l', r)) :
    (r.ret = false ↔ ∃ p ∈ r.calls, f p = false) ∧
    (∀ p ∈ r.calls, ∃ e, w.verifyPath p e l.dev? lm = .ok false) := by
  unfold Loader.assertDirectoryVerifies at h
  split at h
  · cases h
  · rename_i l1 ed hed
    split at h
    · cases h
    · rename_i rel hrel
      simp only at h
      split at h
      · cases h
      · rename_i st1 hwalk
        split at h
        · cases h
        · rename_i st2 hmiss
          cases h
          have hi0 : Inv ⟨w, l.top, l.dev?, .policy f, lm⟩ f { ed := ed } := ⟨rfl, by simp⟩
          have hi1 : Inv ⟨w, l.top, l.dev?, .policy f, lm⟩ f st1 := by
            unfold walkFrom at hwalk
            split at hwalk
            · cases hwalk
            · exact walkDir_inv _ f rfl _ _ _ _ _ hi0 hwalk
            · cases hwalk
            · cases hwalk
            · cases hwalk
          have hi2 : Inv ⟨w, l.top, l.dev?, .policy f, lm⟩ f st2 :=
            missing_inv _ f rfl st1.ed { st1 with ed := [] } st2 ⟨hi1.ret_eq, hi1.calls_failed⟩ hmiss
          refine ⟨?_, hi2.calls_failed⟩
          simp only
          rw [hi2.ret_eq]
          constructor
          · intro hall
            rw [List.all_eq_false] at hall
            obtain ⟨p, hp, hf⟩ := hall
            exact ⟨p, hp, by simpa using hf⟩
          · rintro ⟨p, hp, hf⟩
            rw [List.all_eq_false]
            exact ⟨p, hp, by simp [hf]⟩

/-- **C07 (structural problems are still raised).** A directory on another
    device in one-file-system mode, or a directory that is its own ancestor,
    ends the walk with the corresponding error whatever the handler returns. -/
theorem C07_structural_still_raised (c : VCfg) (st : WalkSt) (sys rel : Str) (dev ino : Nat) (kids : List (Str × Node)) :
    (devBad c.dev? dev = true → visitDir c st sys rel dev ino kids = .error (.crossDevice sys)) ∧
    (devBad c.dev? dev = false → (parentIds st sys).contains (dev, ino) = true →
      visitDir c st sys rel dev ino kids = .error (.symlinkLoop sys)) := by
  constructor
  · intro h; simp [visitDir, h]
  · intro h1 h2
    unfold visitDir
    rw [if_neg (by simp [h1]), if_pos h2]

/-- … and a raised error ends everything: no result is returned -/
theorem C07_error_propagates (c : VCfg) (st : WalkSt) (sys rel : Str) (dev ino : Nat) (kids : List (Str × Node)) (e : Err)
    (h : visitDir c st sys rel dev ino kids = .error e) : walkDir c st sys rel (.dir dev ino kids) = .error e := by
  simp [walkDir, h]

end Gemato.C07
