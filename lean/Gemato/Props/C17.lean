import Gemato.Model.Hash
/-
  C17 — Reported digests and sizes are those of the whole file content.
-/
namespace Gemato.C17
open Gemato.Hash

theorem readLoop_eq (H : HashAlg) (law : H.Streaming) (st : H.State) (chunks : List Bytes)
    (hne : ∀ c ∈ chunks, c ≠ []) : readLoop H st chunks = H.update st chunks.flatten := by
  induction chunks generalizing st with
  | nil => simp [readLoop, law.update_nil]
  | cons c cs ih =>
    have hc : c.isEmpty = false := by
      cases c with
      | nil => exact absurd rfl (hne [] (by simp))
      | cons _ _ => rfl
    simp only [readLoop, hc, Bool.false_eq_true, if_false, List.flatten_cons]
    rw [ih _ (fun x hx => hne x (by simp [hx])), law.update_update]

/-- **C17 (any read schedule, any size hint, any thresholds).** For every
    hash object obeying the streaming law, every way the content arrives in
    non-empty reads, every size hint (true, 0, smaller, larger) and every value
    of the slurp threshold, the state that is finalised is the state after
    feeding the complete content once. -/
theorem C17_any_schedule (H : HashAlg) (law : H.Streaming) (slurpMax hint : Nat) (chunks : List Bytes)
    (hne : ∀ c ∈ chunks, c ≠ []) :
    hashFile H slurpMax hint chunks = H.update H.init chunks.flatten := by
  unfold hashFile
  split
  · rfl
  · exact readLoop_eq H law _ chunks hne

theorem sizeHash_streaming : sizeHash.Streaming :=
  ⟨fun (s : Nat) a b => by show s + a.length + b.length = s + (a ++ b).length; simp [Nat.add_assoc],
   fun (s : Nat) => Nat.add_zero s⟩

/-- the reported size is the number of bytes of the content -/
theorem C17_size (slurpMax hint : Nat) (chunks : List Bytes) (hne : ∀ c ∈ chunks, c ≠ []) :
    hashFile sizeHash slurpMax hint chunks = chunks.flatten.length := by
  rw [C17_any_schedule sizeHash sizeHash_streaming slurpMax hint chunks hne]
  show 0 + chunks.flatten.length = chunks.flatten.length
  simp

/-- two schedules of the same content give the same digest -/
theorem C17_schedule_independent (H : HashAlg) (law : H.Streaming) (m1 h1 m2 h2 : Nat) (c1 c2 : List Bytes)
    (hn1 : ∀ c ∈ c1, c ≠ []) (hn2 : ∀ c ∈ c2, c ≠ []) (heq : c1.flatten = c2.flatten) :
    H.final (hashFile H m1 h1 c1) = H.final (hashFile H m2 h2 c2) := by
  rw [C17_any_schedule H law m1 h1 c1 hn1, C17_any_schedule H law m2 h2 c2 hn2, heq]

/-- the ten GLEP 74 names are all resolved, to distinct algorithms -/
theorem C17_table_total : nameTable.length = 10 ∧ (nameTable.map (·.1)).Nodup ∧ (nameTable.map (·.2)).Nodup := by
  decide

theorem hashlibName_some_mem (n a : Str) (h : hashlibName? n = some a) : (n, a) ∈ nameTable := by
  unfold hashlibName? at h
  cases hf : nameTable.find? (·.1 == n) with
  | none => simp [hf] at h
  | some p =>
    simp [hf] at h
    have h1 := List.mem_of_find?_eq_some hf
    have h2 := List.find?_some hf
    simp at h2
    obtain ⟨p1, p2⟩ := p
    simp at h h2
    subst h h2
    exact h1

/-- **C17 (unsupported names are reported).** A name outside the table, or
    one whose algorithm the running hashlib does not offer, yields the
    unsupported-hash error; nothing is ignored or mapped elsewhere: on success
    every requested name is paired with exactly its table entry. -/
theorem C17_resolve_ok (available : Str → Bool) (ns : List Str) (r : List (Str × Str))
    (h : resolveNames available ns = .ok r) :
    r.map (·.1) = ns ∧ ∀ p ∈ r, p ∈ nameTable ∧ available p.2 = true := by
  induction ns generalizing r with
  | nil => simp [resolveNames] at h; subst h; simp
  | cons n ns ih =>
    simp only [resolveNames] at h
    cases hn : hashlibName? n with
    | none => simp [hn] at h
    | some a =>
      simp only [hn] at h
      by_cases ha : available a = true
      · simp only [ha, Bool.not_true, Bool.false_eq_true, if_false] at h
        cases hr : resolveNames available ns with
        | error e => simp [hr] at h
        | ok r' =>
          simp only [hr, Except.ok.injEq] at h
          subst h
          obtain ⟨h1, h2⟩ := ih r' hr
          refine ⟨by simp [h1], ?_⟩
          intro p hp
          simp at hp
          rcases hp with hp | hp
          · subst hp; exact ⟨hashlibName_some_mem n a hn, ha⟩
          · exact h2 p hp
      · simp [ha] at h

theorem C17_unknown_name_reported (available : Str → Bool) (pre : List Str) (n : Str) (post : List Str)
    (hpre : ∀ m ∈ pre, ∃ a, hashlibName? m = some a ∧ available a = true)
    (hn : hashlibName? n = none) :
    resolveNames available (pre ++ n :: post) = .error (.unsupported n) := by
  induction pre with
  | nil => simp [resolveNames, hn]
  | cons m pre ih =>
    obtain ⟨a, h1, h2⟩ := hpre m (by simp)
    simp [resolveNames, h1, h2, ih (fun x hx => hpre x (by simp [hx]))]

-- non-vacuity: the streaming law is satisfiable by a non-trivial hash (the identity "digest")
def idHash : HashAlg := { State := Bytes, init := [], update := fun s b => s ++ b, final := id }
example : idHash.Streaming := ⟨fun s a b => List.append_assoc s a b, fun s => List.append_nil s⟩
example : hashFile idHash 1048576 5 [[1, 2], [3], [4, 5, 6]] = [1, 2, 3, 4, 5, 6] := by rfl
example : hashFile idHash 1048576 0 [[1, 2], [3], [4, 5, 6]] = [1, 2, 3, 4, 5, 6] := by rfl

end Gemato.C17
