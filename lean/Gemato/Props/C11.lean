import Gemato.Model.Cli
/-
  C11 — Incremental update equals full update.
  Per entry: the mtime shortcut of `update_entry_for_path` can only skip a file
  that is not newer than the previous TIMESTAMP and whose size is unchanged;
  skipping an entry that was exact for an unchanged file gives what re-hashing
  gives. Over a history in which every modified file ends up newer than the
  previous TIMESTAMP these make the incremental and the full run agree entry by
  entry; the composition over whole trees and rounds is decided by the
  correspondence runs (two replicas, several time zones).
-/
namespace Gemato.C11
open Gemato.L1 Gemato.U Gemato.Cli

/-- **newer files are always re-hashed**: a file modified after the previous
    TIMESTAMP is treated by the incremental run exactly as by the full run -/
theorem C11_newer_files_rehashed (m : FileMeta) (p : Str) (e : Entry) (hs : Option (List Str)) (dev : Option Nat)
    (t : Int) (h : t < m.mtime) :
    refreshEntry (.file m) p e hs dev (some t) = refreshEntry (.file m) p e hs dev none := by
  cases e with
  | timestamp _ => rfl
  | ignore _ => rfl
  | file tg q n c =>
    have h1 : mtimeSkip m (some t) = false := by
      simp only [mtimeSkip, Bool.and_eq_false_iff, decide_eq_false_iff_not]
      left; omega
    have h2 : mtimeSkip m none = false := rfl
    simp only [refreshEntry, h1, h2]

/-- **a changed size is always re-hashed**, whatever the mtime -/
theorem C11_size_change_always_rehashed (m : FileMeta) (p : Str) (tg : FTag) (q : Str) (n : Nat) (c : List (Str × Str))
    (hs : Option (List Str)) (dev : Option Nat) (t : Int) (h : m.stSize ≠ n) :
    refreshEntry (.file m) p (.file tg q n c) hs dev (some t) = refreshEntry (.file m) p (.file tg q n c) hs dev none := by
  have h1 : (m.stSize == n) = false := by simpa using h
  simp only [refreshEntry, h1, Bool.and_false]

/-- **skipping is sound**: if the entry already is what hashing the file would
    produce, the incremental run (skipped or not) and the full run both leave it
    as it is and queue nothing -/
theorem C11_skip_equals_full_when_exact (m : FileMeta) (p : Str) (tg : FTag) (q : Str) (hs : List Str) (dev : Option Nat)
    (t : Option Int) (newCks : List (Str × Str)) (hd : devBad dev m.dev = false) (hf : freshCks m hs = .ok newCks)
    (hst : m.stSize = 0 ∨ m.stSize = m.size) :
    refreshEntry (.file m) p (.file tg q m.size newCks) (some hs) dev t = .ok (.file tg q m.size newCks, false) := by
  have hass : (m.stSize != 0 && m.stSize != m.size) = false := by
    rcases hst with h | h <;> simp [h]
  simp only [refreshEntry, hd, Bool.false_eq_true, if_false, Option.getD_some, hf, hass]
  split
  · rfl
  · simp

/-- the skip needs all of: a previous TIMESTAMP, a file not newer than it, a
    non-zero apparent size equal to the listed size -/
theorem C11_skip_only_if (m : FileMeta) (p : Str) (tg : FTag) (q : Str) (n : Nat) (c : List (Str × Str))
    (hs : List Str) (dev : Option Nat) (lm : Option Int)
    (h : (mtimeSkip m lm && m.stSize == n) = true) :
    ∃ t, lm = some t ∧ m.mtime ≤ t ∧ m.stSize ≠ 0 ∧ m.stSize = n := by
  simp only [Bool.and_eq_true, beq_iff_eq] at h
  obtain ⟨h1, h2⟩ := h
  cases lm with
  | none => simp [mtimeSkip] at h1
  | some t =>
    simp only [mtimeSkip, Bool.and_eq_true, decide_eq_true_eq, bne_iff_ne, ne_eq] at h1
    exact ⟨t, rfl, h1.1, h1.2, h2⟩

/-- **every local time zone**: the mtime bound derived from a TIMESTAMP does not
    depend on the UTC offset of the zone the tool runs in -/
theorem C11_timezone_independent (ts o1 o2 : Int) : lastMtime ts o1 = lastMtime ts o2 := rfl

/-- **the written TIMESTAMP is never later than the moment scanning started**, so a
    file changed while the update was running (mtime ≥ start) is newer than or
    equal to … and strictly newer files are picked up by the next incremental run -/
theorem C11_timestamp_not_after_start (startNs : Int) : lastMtime (writtenTimestamp startNs) 0 ≤ startNs := by
  unfold lastMtime writtenTimestamp nsPerSec
  have := Int.ediv_mul_le startNs (b := 1000000000) (by decide)
  omega

theorem C11_changed_during_run_picked_up (startNs : Int) (m : FileMeta) (p : Str) (e : Entry) (hs : Option (List Str))
    (dev : Option Nat) (h : startNs < m.mtime) :
    refreshEntry (.file m) p e hs dev (some (lastMtime (writtenTimestamp startNs) 0)) =
      refreshEntry (.file m) p e hs dev none :=
  C11_newer_files_rehashed m p e hs dev _ (by have := C11_timestamp_not_after_start startNs; omega)

end Gemato.C11
