import Gemato.Extracted
import Gemato.Model.OpenPGP
/-
  Bridge obligations for the OpenPGP level (C05): constants and call-site facts of
  gemato/openpgp.py and gemato/cli.py, re-extracted on every run.
-/
namespace Gemato.Bridge
open Gemato.PGP

/-- the `if/elif` chain of `verify_file` tests these prefixes in this order -/
theorem pgp_prefixes : Extracted.pgpPrefixes = [pGOODSIG, pEXPKEYSIG, pREVKEYSIG, pVALIDSIG, pTRUST] := by decide

/-- the accepted validity tokens are gpg's TRUST_MARGINAL, TRUST_FULLY, TRUST_ULTIMATE -/
theorem trust_tokens_are_gpgs_vocabulary : Extracted.pgpTrustTokens = trustedTokens := by decide

/-- fields taken from VALIDSIG / TRUST_ lines -/
theorem valid_fields_indices : Extracted.pgpSplIndices = [2, 4, 5, 11, 1] ∧ Extracted.pgpMinFields = 12 ∧ Extracted.pgpSplitCalls = [([32], 0), ([32], 2)] := by decide

/-- gpg is run with status-fd 1 and verify; a non-zero exit raises the verification failure -/
theorem verify_argv : Extracted.pgpVerifyArgv = [[45, 45, 98, 97, 116, 99, 104], [45, 45, 115, 116, 97, 116, 117, 115, 45, 102, 100], [49], [45, 45, 118, 101, 114, 105, 102, 121]] ∧ Extracted.pgpVerifyRaiseOnError = [[79, 112, 101, 110, 80, 71, 80, 86, 101, 114, 105, 102, 105, 99, 97, 116, 105, 111, 110, 70, 97, 105, 108, 117, 114, 101]] := by decide

/-- exception classes raised, in source order -/
theorem failure_classes : Extracted.pgpRaises = [[79, 112, 101, 110, 80, 71, 80, 69, 120, 112, 105, 114, 101, 100, 75, 101, 121, 70, 97, 105, 108, 117, 114, 101], [79, 112, 101, 110, 80, 71, 80, 82, 101, 118, 111, 107, 101, 100, 75, 101, 121, 70, 97, 105, 108, 117, 114, 101], [79, 112, 101, 110, 80, 71, 80, 85, 110, 107, 110, 111, 119, 110, 83, 105, 103, 70, 97, 105, 108, 117, 114, 101], [79, 112, 101, 110, 80, 71, 80, 85, 110, 116, 114, 117, 115, 116, 101, 100, 83, 105, 103, 70, 97, 105, 108, 117, 114, 101]] := by decide

/-- environment composition of `_spawn_gpg`: caller's env, TZ, then the override; that env is what Popen gets -/
theorem spawn_env : Extracted.pgpSpawnEnvSteps = [[99, 111, 112, 121, 58, 111, 115, 46, 101, 110, 118, 105, 114, 111, 110, 46, 99, 111, 112, 121, 40, 41], [115, 101, 116, 58, 84, 90, 61, 85, 84, 67], [117, 112, 100, 97, 116, 101, 58, 101, 110, 118, 95, 111, 118, 101, 114, 114, 105, 100, 101], [112, 111, 112, 101, 110, 45, 101, 110, 118, 58, 101, 110, 118]] := by decide

/-- the isolated environment forces its private GNUPGHOME into every spawn -/
theorem isolated_override : Extracted.pgpIsolatedOverride = [([71, 78, 85, 80, 71, 72, 79, 77, 69], [115, 101, 108, 102, 46, 104, 111, 109, 101]), ([104, 116, 116, 112, 95, 112, 114, 111, 120, 121], [115, 101, 108, 102, 46, 112, 114, 111, 120, 121])] ∧ Extracted.pgpIsolatedPassesOverride = true ∧ Extracted.pgpHomeProperty = [114, 101, 116, 117, 114, 110, 32, 115, 101, 108, 102, 46, 95, 104, 111, 109, 101] := by decide

/-- no method of the isolated class starts a process except through self._spawn_gpg -/
theorem isolated_all_spawns_through_override : Extracted.pgpIsolatedDirectSpawns = 0 ∧ 0 < Extracted.pgpIsolatedSelfSpawns := by decide

/-- direct trust model; imported keys get owner-trust 6 (ultimate) -/
theorem isolated_conf : Extracted.pgpConfTrustModelDirect = true ∧ Extracted.pgpOwnertrustSuffix = [58, 54, 58] ++ [10] := by decide

/-- the key-file option selects the isolated environment -/
theorem cli_env_choice : Extracted.cliEnvChoice = [[101, 110, 118, 95, 99, 108, 97, 115, 115, 32, 61, 32, 79, 112, 101, 110, 80, 71, 80, 69, 110, 118, 105, 114, 111, 110, 109, 101, 110, 116], [101, 110, 118, 95, 99, 108, 97, 115, 115, 32, 61, 32, 79, 112, 101, 110, 80, 71, 80, 83, 121, 115, 116, 101, 109, 69, 110, 118, 105, 114, 111, 110, 109, 101, 110, 116]] ∧ Extracted.pgpEnvAliases = [([79, 112, 101, 110, 80, 71, 80, 83, 121, 115, 116, 101, 109, 69, 110, 118, 105, 114, 111, 110, 109, 101, 110, 116], [83, 121, 115, 116, 101, 109, 71, 80, 71, 69, 110, 118, 105, 114, 111, 110, 109, 101, 110, 116]), ([79, 112, 101, 110, 80, 71, 80, 69, 110, 118, 105, 114, 111, 110, 109, 101, 110, 116], [73, 115, 111, 108, 97, 116, 101, 100, 71, 80, 71, 69, 110, 118, 105, 114, 111, 110, 109, 101, 110, 116])] := by decide

/-- the require-signed option: exit 1 unless the top-level ManifestFile reported itself signed -/
theorem cli_require_signed : Extracted.cliRequireSignedReturns = [1] ∧ Extracted.loaderSignedFlag = [109, 46, 111, 112, 101, 110, 112, 103, 112, 95, 115, 105, 103, 110, 101, 100] := by decide

/-- the signed flag is assigned after the verify_file block -/
theorem signed_flag_after_verify : Extracted.loadSignedTail = [[118, 101, 114, 105, 102, 121, 95, 111, 112, 101, 110, 112, 103, 112, 32, 97, 110, 100, 32, 115, 116, 97, 116, 101, 32, 61, 61, 32, 77, 97, 110, 105, 102, 101, 115, 116, 83, 116, 97, 116, 101, 46, 80, 79, 83, 84, 95, 83, 73, 71, 78, 69, 68, 95, 68, 65, 84, 65], [97, 115, 115, 101, 114, 116, 32, 111, 112, 101, 110, 112, 103, 112, 95, 101, 110, 118], [119, 105, 116, 104, 32, 105, 111, 46, 83, 116, 114, 105, 110, 103, 73, 79, 40, 111, 112, 101, 110, 112, 103, 112, 95, 100, 97, 116, 97, 41, 32, 97, 115, 32, 102, 58], [115, 101, 108, 102, 46, 111, 112, 101, 110, 112, 103, 112, 95, 115, 105, 103, 110, 101, 100, 32, 61, 32, 84, 114, 117, 101]] := by decide

end Gemato.Bridge
