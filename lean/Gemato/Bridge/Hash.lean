import Gemato.Extracted
import Gemato.Model.Hash
/-
  Bridge obligations for hashing (C17): gemato/hash.py, the name table, and the
  call site in gemato/verify.py, re-extracted on every run.
-/
namespace Gemato.Bridge
open Gemato.Hash

/-- the Manifest name → hashlib algorithm table is the GLEP 74 table -/
theorem hash_name_table : Extracted.hashMapping = nameTable := by decide

/-- the only facts about the two thresholds the theorems need (C17_any_schedule holds for every value) -/
theorem hash_buffer_sizes_positive : 0 < Extracted.hashBufferSize ∧ 0 < Extracted.maxSlurpSize := by decide

/-- hash_file: whole-file read() when a small non-zero size hint is given, else read1 until the empty read; every hash object fed every block -/
theorem hash_slurp_or_chunk : Extracted.hashSlurpCond = [95, 97, 112, 112, 97, 114, 101, 110, 116, 95, 115, 105, 122, 101, 32, 33, 61, 32, 48, 32, 97, 110, 100, 32, 95, 97, 112, 112, 97, 114, 101, 110, 116, 95, 115, 105, 122, 101, 32, 60, 32, 77, 65, 88, 95, 83, 76, 85, 82, 80, 95, 83, 73, 90, 69] ∧ Extracted.hashSlurpBody = [[98, 108, 111, 99, 107, 32, 61, 32, 102, 46, 114, 101, 97, 100, 40, 41], [102, 111, 114, 32, 104, 32, 105, 110, 32, 104, 97, 115, 104, 101, 115, 46, 118, 97, 108, 117, 101, 115, 40, 41, 58]] ∧ Extracted.hashLoopBody = [[102, 111, 114, 32, 98, 108, 111, 99, 107, 32, 105, 110, 32, 105, 116, 101, 114, 40, 108, 97, 109, 98, 100, 97, 58, 32, 102, 46, 114, 101, 97, 100, 49, 40, 72, 65, 83, 72, 95, 66, 85, 70, 70, 69, 82, 95, 83, 73, 90, 69, 41, 44, 32, 98, 39, 39, 41, 58], [32, 32, 32, 32, 102, 111, 114, 32, 104, 32, 105, 110, 32, 104, 97, 115, 104, 101, 115, 46, 118, 97, 108, 117, 101, 115, 40, 41, 58], [32, 32, 32, 32, 32, 32, 32, 32, 104, 46, 117, 112, 100, 97, 116, 101, 40, 98, 108, 111, 99, 107, 41]] ∧ Extracted.hashReturn = [114, 101, 116, 117, 114, 110, 32, 100, 105, 99, 116, 40, 40, 40, 107, 44, 32, 104, 46, 104, 101, 120, 100, 105, 103, 101, 115, 116, 40, 41, 41, 32, 102, 111, 114, 32, 107, 44, 32, 104, 32, 105, 110, 32, 104, 97, 115, 104, 101, 115, 46, 105, 116, 101, 109, 115, 40, 41, 41, 41] := by decide

/-- a name hashlib lacks is the unsupported-hash error -/
theorem hash_get_hash_by_name : Extracted.hashGetByName = [[105, 102, 32, 110, 97, 109, 101, 32, 61, 61, 32, 39, 95, 95, 115, 105, 122, 101, 95, 95, 39, 58], [114, 101, 116, 117, 114, 110, 32, 83, 105, 122, 101, 72, 97, 115, 104, 40, 41], [105, 102, 32, 110, 97, 109, 101, 32, 105, 110, 32, 104, 97, 115, 104, 108, 105, 98, 46, 97, 108, 103, 111, 114, 105, 116, 104, 109, 115, 95, 97, 118, 97, 105, 108, 97, 98, 108, 101, 58], [114, 101, 116, 117, 114, 110, 32, 104, 97, 115, 104, 108, 105, 98, 46, 110, 101, 119, 40, 110, 97, 109, 101, 41], [114, 97, 105, 115, 101, 32, 85, 110, 115, 117, 112, 112, 111, 114, 116, 101, 100, 72, 97, 115, 104, 40, 110, 97, 109, 101, 41]] := by decide

/-- the size pseudo-hash counts bytes -/
theorem hash_size_hash : Extracted.hashSizeHash = [[100, 101, 102, 32, 95, 95, 105, 110, 105, 116, 95, 95, 40, 115, 101, 108, 102, 41, 58], [115, 101, 108, 102, 46, 115, 105, 122, 101, 32, 61, 32, 48], [100, 101, 102, 32, 117, 112, 100, 97, 116, 101, 40, 115, 101, 108, 102, 44, 32, 100, 97, 116, 97, 41, 58], [115, 101, 108, 102, 46, 115, 105, 122, 101, 32, 43, 61, 32, 108, 101, 110, 40, 100, 97, 116, 97, 41], [100, 101, 102, 32, 104, 101, 120, 100, 105, 103, 101, 115, 116, 40, 115, 101, 108, 102, 41, 58], [114, 101, 116, 117, 114, 110, 32, 115, 101, 108, 102, 46, 115, 105, 122, 101]] := by decide

/-- verification and update hash through hash_file with st_size as the hint -/
theorem hash_metadata_hash_call : Extracted.metaHashCall = [104, 97, 115, 104, 95, 102, 105, 108, 101, 40, 102, 44, 32, 104, 97, 115, 104, 101, 115, 44, 32, 95, 97, 112, 112, 97, 114, 101, 110, 116, 95, 115, 105, 122, 101, 61, 115, 116, 46, 115, 116, 95, 115, 105, 122, 101, 41] := by decide

/-- an unknown Manifest hash name is the unsupported-hash error -/
theorem hash_name_translation : Extracted.hashNameTranslation = [[102, 111, 114, 32, 104, 32, 105, 110, 32, 104, 97, 115, 104, 101, 115, 58], [116, 114, 121, 58], [121, 105, 101, 108, 100, 32, 77, 65, 78, 73, 70, 69, 83, 84, 95, 72, 65, 83, 72, 95, 77, 65, 80, 80, 73, 78, 71, 91, 104, 93], [101, 120, 99, 101, 112, 116, 32, 75, 101, 121, 69, 114, 114, 111, 114, 58], [114, 97, 105, 115, 101, 32, 85, 110, 115, 117, 112, 112, 111, 114, 116, 101, 100, 72, 97, 115, 104, 40, 104, 41]] := by decide

end Gemato.Bridge
