import Gemato.Extracted
import Gemato.Model.FastGen
/-
  Bridge obligations for the fast generator scripts (C20): the literals re-extracted from
  utils/gen_fast_manifest.py and utils/gen_fast_metamanifest.py on every run are the ones the
  model `Gemato.FG` computes with.
-/
namespace Gemato.Bridge
open Gemato.FG Gemato.Prof

/-- a sub-directory is cut off at `Manifest` / `Manifest.gz` -/
theorem fg_sub_manifest_names : Extracted.fg_subManifestNames = [sManifest, sManifestGz] := by decide

/-- the four names skipped outside compat mode -/
theorem fg_timestamp_names : Extracted.fg_timestampNames = timestampNames := by decide

/-- AUX paths: the prefix tested is `files/` and the slice cuts exactly its length -/
theorem fg_aux_prefix : Extracted.fg_auxPrefix = sFilesSlash ∧ Extracted.fg_auxSliceStart = sFilesSlash.length ∧
    Extracted.fg_auxSliceStart = 6 := by decide

/-- the line format: tag, path, size, then BLAKE2B and SHA512 in the order the reference writer sorts them -/
theorem fg_entry_format :
    Extracted.fg_entryFormat = [123, 125, 32, 123, 125, 32, 123, 125, 32] ++ sBLAKE2B ++ [32, 123, 125, 32] ++ sSHA512 ++ [32, 123, 125] := by
  decide

/-- DIST and IGNORE lines are carried over from an existing Manifest -/
theorem fg_carry_prefixes : Extracted.fg_carryPrefixes = [Gemato.sDIST, Gemato.sIGNORE] := by decide

/-- the fixed members of the four batches are those of the model's `batch` -/
theorem fg_batches :
    batch [] (fun _ => []) (fun _ => false) (fun _ => false) 1 = Extracted.fg_batch1Fixed ∧
    batch [] (fun _ => []) (fun _ => false) (fun _ => false) 2 = Extracted.fg_batch2Fixed ∧
    batch [] (fun _ => []) (fun _ => false) (fun _ => false) 3 = Extracted.fg_batch3Fixed ∧
    batch [] (fun _ => []) (fun _ => false) (fun _ => false) 4 = Extracted.fg_batch4Fixed := by decide

/-- `make_toplevel` looks for `Manifest.gz` first, then `Manifest` -/
theorem fg_toplevel_suffixes : Extracted.fg_toplevelSuffixes = [[46, 103, 122], []] := by decide

/-- the split layout is made in metadata/glsa, metadata/news and the top directory -/
theorem fg_split_dirs : Extracted.fg_splitDirs = [sMetadataSlash sGlsa, sMetadataSlash sNews, []] := by decide

def ignoreLines (ps : List Str) : Str := (ps.map fun p => Gemato.sIGNORE ++ 32 :: p ++ [10]).flatten

/-- the IGNORE entries the meta generator pre-populates are the ebuild profile's defaults for those directories -/
theorem fg_prepopulated_ignores :
    Extracted.fg_prepopulated = [ignoreLines (ignorePaths .ebuild sMetadata),
                                 ignoreLines (ignorePaths .ebuild (sMetadataSlash sDtd)),
                                 ignoreLines (ignorePaths .ebuild [])] ∧
    ignorePaths .ebuild (sMetadataSlash sGlsa) = ignorePaths .ebuild (sMetadataSlash sDtd) ∧
    ignorePaths .ebuild (sMetadataSlash sNews) = ignorePaths .ebuild (sMetadataSlash sDtd) ∧
    ignorePaths .ebuild (sMetadataSlash sXmlSchema) = ignorePaths .ebuild (sMetadataSlash sDtd) := by decide

end Gemato.Bridge
