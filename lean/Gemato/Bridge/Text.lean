import Gemato.Extracted
import Gemato.Model.ManifestText
/-
  Bridge obligations for the text level (C04, C08, C09): the constants the model
  is written with are the constants /repo's current source has (re-extracted on
  every run into `Extracted.lean`).
-/
namespace Gemato.Bridge

theorem tag_keys : Extracted.tagKeys = [sTIMESTAMP, sMANIFEST, sIGNORE, sDATA, sDIST, sEBUILD, sMISC, sAUX] := by decide

/-- every key is mapped to the class whose `tag` attribute is that key -/
theorem tag_classes_consistent :
    Extracted.tagClasses.all (fun kc => Extracted.classTags.contains (kc.2, kc.1)) = true := by decide

theorem tag_lookup_total : ∀ k ∈ Extracted.tagKeys, (tagOf? k).isSome := by decide

theorem disallowed_class : Extracted.disallowedRanges = disallowedRanges := by decide

theorem escape_forms : Extracted.escapeForms = [(120, 2), (117, 4), (85, 8)] := by decide

theorem escape_forms_model : ∀ mw ∈ Extracted.escapeForms, escWidth? mw.1 = some mw.2 := by decide

theorem hex_class : Extracted.hexClass = [(48, 57), (65, 70), (97, 102)] := by decide

theorem decode_base : Extracted.decodeBase = 16 := by decide

theorem encode_thresholds : Extracted.encodeThresholds = [0x7F, 0xFFFF] := by decide

/-- `\x{cp:02X}`, `\u{cp:04X}`, `\U{cp:08X}` -/
theorem encode_formats : Extracted.encodeFormats =
    [([92, 120], [48, 50, 88]), ([92, 117], [48, 52, 88]), ([92, 85], [48, 56, 88])] := by decide

theorem armor_lines : Extracted.armorLines = [lnBeginMsg, lnBeginSig, lnEndSig] := by decide

/-- the literal prefix/suffix tests of `load`, in source order -/
theorem load_prefix_tests : Extracted.loadPrefixTests =
    [([115, 116, 97, 114, 116, 115, 119, 105, 116, 104], sNotDashEscaped),
     ([115, 116, 97, 114, 116, 115, 119, 105, 116, 104], [45, 32]),
     ([115, 116, 97, 114, 116, 115, 119, 105, 116, 104], dashes5),
     ([101, 110, 100, 115, 119, 105, 116, 104], dashes5)] := by decide

end Gemato.Bridge
