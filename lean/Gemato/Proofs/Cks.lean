import Gemato.Model.Entry
/- helper lemmas: the string order is a strict total order; the checksum dict
   (sorted association list) survives writing and re-reading -/
namespace Gemato

theorem strLt_irrefl (a : Str) : strLt a a = false := by
  induction a with
  | nil => rfl
  | cons x xs ih => simp [strLt, ih]

theorem strLt_trans (a b c : Str) (h1 : strLt a b = true) (h2 : strLt b c = true) : strLt a c = true := by
  induction a generalizing b c with
  | nil =>
    cases b with
    | nil => simp [strLt] at h1
    | cons y ys => cases c with
      | nil => simp [strLt] at h2
      | cons z zs => rfl
  | cons x xs ih =>
    cases b with
    | nil => simp [strLt] at h1
    | cons y ys =>
      cases c with
      | nil => simp [strLt] at h2
      | cons z zs =>
        simp only [strLt, Bool.or_eq_true, decide_eq_true_eq, Bool.and_eq_true, beq_iff_eq] at *
        rcases h1 with h1 | ⟨e1, h1⟩ <;> rcases h2 with h2 | ⟨e2, h2⟩
        · left; omega
        · left; omega
        · left; omega
        · right; exact ⟨by omega, ih ys zs h1 h2⟩

theorem strLt_asymm (a b : Str) (h : strLt a b = true) : strLt b a = false := by
  cases hb : strLt b a with
  | false => rfl
  | true => have := strLt_trans a b a h hb; rw [strLt_irrefl] at this; cases this

theorem strLt_ne (a b : Str) (h : strLt a b = true) : a ≠ b := by
  intro e; subst e; rw [strLt_irrefl] at h; cases h

theorem strLt_total (a b : Str) (h1 : strLt a b = false) (h2 : a ≠ b) : strLt b a = true := by
  induction a generalizing b with
  | nil => cases b with
    | nil => exact absurd rfl h2
    | cons y ys => simp [strLt] at h1
  | cons x xs ih =>
    cases b with
    | nil => rfl
    | cons y ys =>
      simp only [strLt, Bool.or_eq_false_iff, decide_eq_false_iff_not, Bool.and_eq_false_iff,
        Bool.or_eq_true, decide_eq_true_eq, Bool.and_eq_true, beq_iff_eq] at *
      obtain ⟨hx, hr⟩ := h1
      by_cases e : x = y
      · subst e
        right
        refine ⟨rfl, ih ys ?_ ?_⟩
        · rcases hr with hr | hr
          · simp at hr
          · exact hr
        · intro e; exact h2 (by rw [e])
      · left; omega

/-- keys strictly increasing -/
def CksSorted (cks : List (Str × Str)) : Prop := List.Pairwise (fun a b => strLt a.1 b.1 = true) cks

theorem ckInsert_last (k v : Str) (acc : List (Str × Str)) (h : ∀ p ∈ acc, strLt p.1 k = true) :
    ckInsert k v acc = acc ++ [(k, v)] := by
  induction acc with
  | nil => rfl
  | cons p acc ih =>
    obtain ⟨k', v'⟩ := p
    have hp : strLt k' k = true := h (k', v') (by simp)
    have hne : k ≠ k' := fun e => strLt_ne _ _ hp e.symm
    have hnlt : strLt k k' = false := strLt_asymm _ _ hp
    simp only [ckInsert, hne, if_false, hnlt, Bool.false_eq_true, List.cons_append]
    rw [ih (fun q hq => h q (by simp [hq]))]

theorem foldl_ckInsert_sorted (acc cks : List (Str × Str)) (h : CksSorted (acc ++ cks)) :
    cks.foldl (fun a kv => ckInsert kv.1 kv.2 a) acc = acc ++ cks := by
  induction cks generalizing acc with
  | nil => simp
  | cons kv cks ih =>
    obtain ⟨k, v⟩ := kv
    simp only [List.foldl_cons]
    have hlast : ∀ p ∈ acc, strLt p.1 k = true := by
      intro p hp
      have := List.pairwise_append.mp h
      exact this.2.2 p hp (k, v) (by simp)
    rw [ckInsert_last k v acc hlast]
    have : CksSorted ((acc ++ [(k, v)]) ++ cks) := by simpa [List.append_assoc] using h
    rw [ih _ this]; simp

theorem parseCks_cksFields (cks acc : List (Str × Str)) :
    parseCks? (cksFields cks) acc = some (cks.foldl (fun a kv => ckInsert kv.1 kv.2 a) acc) := by
  induction cks generalizing acc with
  | nil => rfl
  | cons kv cks ih =>
    obtain ⟨k, v⟩ := kv
    simp only [cksFields, parseCks?, List.foldl_cons]
    exact ih _

/-- a sorted checksum dict is read back as itself -/
theorem parseCks_roundtrip (cks : List (Str × Str)) (h : CksSorted cks) :
    parseCks? (cksFields cks) [] = some cks := by
  rw [parseCks_cksFields, foldl_ckInsert_sorted [] cks (by simpa using h)]; simp

-- the other direction: whatever was parsed is sorted -------------------------------

theorem ckInsert_mem (k v : Str) (acc : List (Str × Str)) (p : Str × Str) (hp : p ∈ ckInsert k v acc) :
    p = (k, v) ∨ p ∈ acc := by
  induction acc with
  | nil => simp [ckInsert] at hp; exact Or.inl hp
  | cons q acc ih =>
    obtain ⟨k', v'⟩ := q
    simp only [ckInsert] at hp
    split at hp
    · simp at hp; rcases hp with hp | hp
      · exact Or.inl hp
      · exact Or.inr (by simp [hp])
    · split at hp
      · simp at hp; rcases hp with hp | hp | hp
        · exact Or.inl hp
        · exact Or.inr (by simp [hp])
        · exact Or.inr (by simp [hp])
      · simp at hp; rcases hp with hp | hp
        · exact Or.inr (by simp [hp])
        · rcases ih hp with h | h
          · exact Or.inl h
          · exact Or.inr (by simp [h])

theorem ckInsert_sorted (k v : Str) (acc : List (Str × Str)) (h : CksSorted acc) : CksSorted (ckInsert k v acc) := by
  induction acc with
  | nil => simp [ckInsert, CksSorted]
  | cons q acc ih =>
    obtain ⟨k', v'⟩ := q
    have hq := List.pairwise_cons.mp h
    simp only [ckInsert]
    split
    · rename_i e; subst e
      exact List.pairwise_cons.mpr ⟨hq.1, hq.2⟩
    · rename_i hne
      split
      · rename_i hlt
        refine List.pairwise_cons.mpr ⟨?_, h⟩
        intro p hp
        simp at hp
        rcases hp with hp | hp
        · subst hp; exact hlt
        · exact strLt_trans _ _ _ hlt (hq.1 p hp)
      · rename_i hnlt
        have hlt' : strLt k' k = true := strLt_total k k' (by simpa using hnlt) hne
        refine List.pairwise_cons.mpr ⟨?_, ih hq.2⟩
        intro p hp
        rcases ckInsert_mem k v acc p hp with e | e
        · subst e; exact hlt'
        · exact hq.1 p e

theorem parseCks_sorted (fs : List Str) (acc cks : List (Str × Str)) (hacc : CksSorted acc)
    (h : parseCks? fs acc = some cks) : CksSorted cks := by
  induction fs, acc using parseCks?.induct with
  | case1 acc => simp [parseCks?] at h; subst h; exact hacc
  | case2 _ acc => simp [parseCks?] at h
  | case3 k v rest acc ih =>
    simp only [parseCks?] at h
    exact ih (ckInsert_sorted k v acc hacc) h

/-- names and values that were parsed are fields of the line -/
theorem parseCks_mem (fs : List Str) (acc cks : List (Str × Str))
    (h : parseCks? fs acc = some cks) :
    ∀ p ∈ cks, p ∈ acc ∨ (p.1 ∈ fs ∧ p.2 ∈ fs) := by
  induction fs, acc using parseCks?.induct with
  | case1 acc => simp [parseCks?] at h; subst h; intro p hp; exact Or.inl hp
  | case2 _ acc => simp [parseCks?] at h
  | case3 k v rest acc ih =>
    simp only [parseCks?] at h
    intro p hp
    rcases ih h p hp with h1 | h1
    · rcases ckInsert_mem k v acc p h1 with e | e
      · subst e; exact Or.inr (by simp)
      · exact Or.inl e
    · exact Or.inr ⟨by simp [h1.1], by simp [h1.2]⟩

end Gemato
