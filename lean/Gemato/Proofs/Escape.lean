import Gemato.Model.Escape
/- helper lemmas: hex, escape round trip, what an encoded path can contain -/
namespace Gemato

theorem hexVal_hexDigit (n : Nat) (h : n < 16) : hexVal? (hexDigit n) = some n := by
  unfold hexVal? hexDigit
  split <;> (repeat' split) <;> simp_all <;> omega

theorem fromHex_go (acc : Nat) (w n : Nat) (h : n < 16 ^ w) :
    (toHex w n).foldlM (fun acc d => (hexVal? d).map (fun v => acc * 16 + v)) acc = some (acc * 16 ^ w + n) := by
  induction w generalizing acc n with
  | zero => simp [toHex] at *; omega
  | succ w ih =>
    have h1 : n / 16 < 16 ^ w := by
      rw [Nat.pow_succ] at h; exact Nat.div_lt_of_lt_mul (by omega)
    simp only [toHex, List.foldlM_append, ih acc (n/16) h1]
    simp [hexVal_hexDigit (n % 16) (Nat.mod_lt _ (by decide))]
    rw [Nat.pow_succ]
    have := Nat.div_add_mod n 16
    rw [Nat.add_mul, Nat.mul_assoc]
    omega

theorem fromHex_toHex (w n : Nat) (h : n < 16 ^ w) : fromHex? (toHex w n) = some n := by
  have := fromHex_go 0 w n h
  simpa [fromHex?] using this

theorem toHex_length (w n : Nat) : (toHex w n).length = w := by
  induction w generalizing n with
  | zero => simp [toHex]
  | succ w ih => simp [toHex, ih]

theorem decodePath_encodeChar (c : Nat) (hc : c < 0x110000) (rest : Str) :
    decodePath (encodeChar c ++ rest) = (decodePath rest).map (c :: ·) := by
  unfold encodeChar
  split
  · rw [decodePath.eq_def]; simp [escWidth?, toHex_length, fromHex_toHex 2 c (by omega), hc]; omega
  · split
    · rw [decodePath.eq_def]; simp [escWidth?, toHex_length, fromHex_toHex 4 c (by omega), hc]; omega
    · rw [decodePath.eq_def]; simp [escWidth?, toHex_length, fromHex_toHex 8 c (by omega), hc]; omega

theorem disallowed_backslash : disallowed 92 = true := by decide

theorem encodePath_cons (c : Nat) (s : Str) :
    encodePath (c :: s) = (if disallowed c then encodeChar c else [c]) ++ encodePath s := by
  simp [encodePath]

theorem decodePath_encodePath_append (s rest : Str) (hs : ∀ c ∈ s, c < 0x110000) :
    decodePath (encodePath s ++ rest) = (decodePath rest).map (s ++ ·) := by
  induction s with
  | nil => simp [encodePath]; cases decodePath rest <;> rfl
  | cons c s ih =>
    have hc := hs c (by simp)
    have hs' : ∀ c ∈ s, c < 0x110000 := fun x hx => hs x (by simp [hx])
    rw [encodePath_cons]
    split
    · rw [List.append_assoc, decodePath_encodeChar c hc, ih hs']
      cases decodePath rest <;> simp [Except.map]
    · rename_i hd
      have : c ≠ 92 := by
        intro h; subst h; simp [disallowed_backslash] at hd
      simp only [List.cons_append, List.nil_append]
      rw [decodePath.eq_def]; simp [this, ih hs']
      cases decodePath rest <;> simp [Except.map]

/-- unescaping an escaped path gives the path back — for every string of code
    points below 0x110000, lone surrogates included -/
theorem decodePath_encodePath (s : Str) (hs : ∀ c ∈ s, c < 0x110000) : decodePath (encodePath s) = .ok s := by
  have := decodePath_encodePath_append s [] hs
  simpa [decodePath, Except.map] using this

theorem isSpace_disallowed (c : Nat) (h : isSpace c = true) : disallowed c = true := by
  simp only [isSpace, disallowed, inRanges, spaceRanges, disallowedRanges, List.any, Bool.or_eq_true,
    Bool.and_eq_true, decide_eq_true_eq, Bool.or_false] at *
  omega

theorem hexDigit_not_special (n : Nat) (h : n < 16) :
    isSpace (hexDigit n) = false ∧ hexDigit n ≠ 47 ∧ hexDigit n ≠ 92 := by
  have : hexDigit n = 48 + n ∨ hexDigit n = 55 + n := by unfold hexDigit; split <;> simp
  refine ⟨?_, ?_, ?_⟩
  · simp only [isSpace, inRanges, spaceRanges, List.any, Bool.or_false]
    rcases this with e | e <;> rw [e] <;> simp <;> omega
  · rcases this with e | e <;> omega
  · unfold hexDigit; split <;> omega

theorem toHex_mem (w n c : Nat) (h : c ∈ toHex w n) : ∃ d, d < 16 ∧ c = hexDigit d := by
  induction w generalizing n with
  | zero => simp [toHex] at h
  | succ w ih =>
    simp only [toHex, List.mem_append, List.mem_singleton] at h
    rcases h with h | h
    · exact ih _ h
    · exact ⟨n % 16, Nat.mod_lt _ (by decide), h⟩

/-- every character an escape consists of is neither whitespace nor a slash;
    the only backslash is the leading one -/
theorem encodeChar_mem (c x : Nat) (h : x ∈ encodeChar c) : isSpace x = false ∧ x ≠ 47 := by
  have key : x = 92 ∨ x = 120 ∨ x = 117 ∨ x = 85 ∨ ∃ w n, x ∈ toHex w n := by
    unfold encodeChar at h
    split at h
    · simp at h; rcases h with h | h | h; exact Or.inl h; exact Or.inr (Or.inl h); exact Or.inr (Or.inr (Or.inr (Or.inr ⟨_, _, h⟩)))
    · split at h
      · simp at h; rcases h with h | h | h; exact Or.inl h; exact Or.inr (Or.inr (Or.inl h)); exact Or.inr (Or.inr (Or.inr (Or.inr ⟨_, _, h⟩)))
      · simp at h; rcases h with h | h | h; exact Or.inl h; exact Or.inr (Or.inr (Or.inr (Or.inl h))); exact Or.inr (Or.inr (Or.inr (Or.inr ⟨_, _, h⟩)))
  rcases key with e | e | e | e | ⟨w, n, hm⟩
  · subst e; decide
  · subst e; decide
  · subst e; decide
  · subst e; decide
  · obtain ⟨d, hd, rfl⟩ := toHex_mem w n x hm
    exact ⟨(hexDigit_not_special d hd).1, (hexDigit_not_special d hd).2.1⟩

/-- an encoded path contains no whitespace (so it is one field and cannot end
    a line) -/
theorem encodePath_no_space (s : Str) : ∀ x ∈ encodePath s, isSpace x = false := by
  intro x hx
  simp only [encodePath, List.mem_flatMap] at hx
  obtain ⟨c, _, hx⟩ := hx
  split at hx
  · exact (encodeChar_mem c x hx).1
  · rename_i hd
    simp at hx; subst hx
    cases hsp : isSpace x with
    | false => rfl
    | true => exact absurd (isSpace_disallowed x hsp) hd

theorem encodeChar_ne_nil (c : Nat) : encodeChar c ≠ [] := by
  unfold encodeChar; split <;> (try split) <;> simp

theorem encodeChar_head (c : Nat) : (encodeChar c).head? = some 92 := by
  unfold encodeChar; split <;> (try split) <;> simp

theorem encodePath_ne_nil (s : Str) (h : s ≠ []) : encodePath s ≠ [] := by
  cases s with
  | nil => exact absurd rfl h
  | cons c s =>
    rw [encodePath_cons]
    split
    · simp [encodeChar_ne_nil]
    · simp

/-- a relative path stays relative when written -/
theorem encodePath_head (s : Str) (h : s.head? ≠ some 47) : (encodePath s).head? ≠ some 47 := by
  cases s with
  | nil => simp [encodePath]
  | cons c s =>
    rw [encodePath_cons]
    split
    · have := encodeChar_head c
      cases he : encodeChar c with
      | nil => exact absurd he (encodeChar_ne_nil c)
      | cons a as => rw [he] at this; simp at this; subst this; simp
    · simpa using h

end Gemato
