import Gemato.Model.Path
/- helper lemmas: the component-wise prefix test -/
namespace Gemato

theorem startsWith_iff (s p : Str) : startsWith s p = true ↔ ∃ t, s = p ++ t := by
  induction p generalizing s with
  | nil => cases s <;> simp [startsWith]
  | cons b bs ih =>
    cases s with
    | nil => simp [startsWith]
    | cons a as =>
      simp only [startsWith, Bool.and_eq_true, beq_iff_eq, ih, List.cons_append, List.cons.injEq]
      constructor
      · rintro ⟨rfl, t, rfl⟩; exact ⟨t, rfl, rfl⟩
      · rintro ⟨t, rfl, rfl⟩; exact ⟨rfl, t, rfl⟩

theorem rstripSlash_id (p : Str) (h : p.getLast? ≠ some slash) : rstripSlash p = p := by
  unfold rstripSlash
  cases hr : p.reverse with
  | nil => simp [List.reverse_eq_nil_iff.mp hr]
  | cons c cs =>
    have hc : c ≠ slash := by
      intro e
      apply h
      have : p = (c :: cs).reverse := by rw [← hr, List.reverse_reverse]
      rw [this, e]; simp
    have : (c == 47) = false := by simpa [slash] using hc
    simp only [List.dropWhile, this]
    rw [← hr, List.reverse_reverse]

/-- **component-wise prefix.** For a non-empty prefix without a trailing slash,
    `path_starts_with(path, prefix)` holds exactly when `path` is the prefix or
    continues it with a slash — never when it merely continues the last name. -/
theorem pathStartsWith_iff (path pre : Str) (hne : pre ≠ []) (hns : pre.getLast? ≠ some slash) :
    pathStartsWith path pre = true ↔ path = pre ∨ ∃ rest, path = pre ++ slash :: rest := by
  have he : pre.isEmpty = false := by cases pre with | nil => exact absurd rfl hne | cons _ _ => rfl
  simp only [pathStartsWith, he, Bool.false_or, rstripSlash_id pre hns, startsWith_iff]
  constructor
  · rintro ⟨t, ht⟩
    rcases List.eq_nil_or_concat t with rfl | ⟨t', c, rfl⟩
    · left
      simpa using ht
    · right
      have : path ++ [slash] = (pre ++ slash :: t') ++ [c] := by simpa [List.append_assoc] using ht
      have h2 := List.append_inj' this rfl
      exact ⟨t', h2.1⟩
  · rintro (rfl | ⟨rest, rfl⟩)
    · exact ⟨[], by simp⟩
    · exact ⟨rest ++ [slash], by simp [List.append_assoc]⟩

/-- a look-alike sibling is not covered: `ab/x` does not start with `a` -/
theorem pathStartsWith_lookalike (pre : Str) (c : Nat) (rest : Str) (hne : pre ≠ [])
    (hns : pre.getLast? ≠ some slash) (hc : c ≠ slash) : pathStartsWith (pre ++ c :: rest) pre = false := by
  cases h : pathStartsWith (pre ++ c :: rest) pre with
  | false => rfl
  | true =>
    rcases (pathStartsWith_iff _ pre hne hns).mp h with e | ⟨r, e⟩
    · have := congrArg List.length e; simp at this
    · have := List.append_cancel_left e
      simp at this; exact absurd this.1 hc

theorem pathStartsWith_empty (path : Str) : pathStartsWith path [] = true := by simp [pathStartsWith]

end Gemato
