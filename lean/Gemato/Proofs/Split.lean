import Gemato.Model.ManifestText
/- helper lemmas: field splitting and line splitting invert joining -/
namespace Gemato

theorem splitGo_append_nospace (cur w rest : Str) (hw : ∀ c ∈ w, isSpace c = false) :
    splitGo cur (w ++ rest) = splitGo (cur ++ w) rest := by
  induction w generalizing cur with
  | nil => simp
  | cons c w ih =>
    have hc : isSpace c = false := hw c (by simp)
    simp only [List.cons_append, splitGo, hc, Bool.false_eq_true, if_false]
    rw [ih (cur ++ [c]) (fun x hx => hw x (by simp [hx]))]
    simp

/-- a well-formed field: non-empty and free of whitespace -/
def FieldOK (f : Str) : Prop := f ≠ [] ∧ ∀ c ∈ f, isSpace c = false

theorem isSpace_nl : isSpace 10 = true := by decide
theorem isSpace_sp : isSpace 32 = true := by decide

theorem splitGo_joinSp_nl (fs : List Str) (h : ∀ f ∈ fs, FieldOK f) :
    splitGo [] (joinSp fs ++ [10]) = fs := by
  induction fs with
  | nil => simp [joinSp, splitGo, isSpace_nl]
  | cons f fs ih =>
    have hf := h f (by simp)
    have hne : f.isEmpty = false := by
      cases f with
      | nil => exact absurd rfl hf.1
      | cons _ _ => rfl
    cases fs with
    | nil =>
      simp only [joinSp]
      rw [splitGo_append_nospace [] f [10] hf.2]
      simp [splitGo, isSpace_nl, hne]
    | cons g gs =>
      simp only [joinSp, List.append_assoc, List.cons_append]
      rw [splitGo_append_nospace [] f _ hf.2]
      simp only [List.nil_append, splitGo, isSpace_sp, if_true, hne, Bool.false_eq_true, if_false]
      have := ih (fun x hx => h x (by simp [hx]))
      rw [this]

/-- `(' '.join(fields) + '\n').split()` gives the fields back -/
theorem splitWs_joinSp_nl (fs : List Str) (h : ∀ f ∈ fs, FieldOK f) :
    splitWs (joinSp fs ++ [10]) = fs := splitGo_joinSp_nl fs h

theorem splitLinesGo_line (cur body rest : Str) (hb : 10 ∉ body) :
    splitLinesGo cur (body ++ 10 :: rest) = (cur ++ body ++ [10]) :: splitLinesGo [] rest := by
  induction body generalizing cur with
  | nil => simp [splitLinesGo]
  | cons c body ih =>
    have hc : c ≠ 10 := fun e => hb (by simp [e])
    have hb' : 10 ∉ body := fun e => hb (by simp [e])
    simp only [List.cons_append, splitLinesGo, beq_iff_eq, hc, if_false]
    rw [ih (cur ++ [c]) hb']
    simp

/-- a line as the writer produces it: a body without "\n", then "\n" -/
def LineOK (l : Str) : Prop := ∃ body, l = body ++ [10] ∧ 10 ∉ body

/-- iterating over the written text yields the written lines -/
theorem splitLines_flatten (ls : List Str) (h : ∀ l ∈ ls, LineOK l) : splitLines ls.flatten = ls := by
  unfold splitLines
  induction ls with
  | nil => simp [splitLinesGo]
  | cons l ls ih =>
    obtain ⟨body, rfl, hb⟩ := h l (by simp)
    simp only [List.flatten_cons, List.append_assoc, List.cons_append, List.nil_append]
    rw [splitLinesGo_line [] body _ hb, ih (fun x hx => h x (by simp [hx]))]
    simp

theorem univNewlines_id (t : Str) (h : 13 ∉ t) : univNewlines t = t := by
  induction t using univNewlines.induct with
  | case1 => rfl
  | case2 rest _ => simp at h
  | case3 rest _ _ => simp at h
  | case4 c rest hc1 hc2 ih =>
    have : 13 ∉ rest := fun e => h (by simp [e])
    rw [univNewlines]
    · rw [ih this]
    · exact hc1
    · exact hc2

end Gemato
