import Gemato.Model.Entry
/- helper lemmas: decimal sizes and timestamps survive writing and re-reading -/
namespace Gemato

theorem digitsVal_append (a : Str) (d : Nat) : digitsVal (a ++ [d]) = digitsVal a * 10 + (d - 48) := by
  simp [digitsVal, List.foldl_append]

theorem toDec_ne_nil (n : Nat) : toDec n ≠ [] := by
  rw [toDec]; split <;> simp

theorem toDec_digits (n : Nat) : ∀ d ∈ toDec n, isDigit d = true := by
  induction n using toDec.induct with
  | case1 n h =>
    rw [toDec]; simp only [h, if_true, List.mem_singleton]
    intro d hd; subst hd; simp [isDigit]; omega
  | case2 n h ih =>
    rw [toDec]; simp only [h, if_false, List.mem_append, List.mem_singleton]
    intro d hd
    rcases hd with hd | hd
    · exact ih d hd
    · subst hd; simp [isDigit]; omega

theorem digitsVal_toDec (n : Nat) : digitsVal (toDec n) = n := by
  induction n using toDec.induct with
  | case1 n h => rw [toDec]; simp [h, digitsVal]
  | case2 n h ih =>
    rw [toDec]; simp only [h, if_false]
    rw [digitsVal_append, ih]; omega

theorem intBodyGo_digits (b : Bool) (ds : Str) (h : ∀ d ∈ ds, isDigit d = true) (hne : b = true ∨ ds ≠ []) :
    intBodyGo b ds = some ds := by
  induction ds generalizing b with
  | nil =>
    rcases hne with hb | hb
    · simp [intBodyGo, hb]
    · exact absurd rfl hb
  | cons d ds ih =>
    have hd := h d (by simp)
    simp only [intBodyGo, hd, if_true]
    rw [ih true (fun x hx => h x (by simp [hx])) (Or.inl rfl)]
    rfl

theorem toDec_head (n : Nat) : ∃ d rest, toDec n = d :: rest ∧ isDigit d = true := by
  cases h : toDec n with
  | nil => exact absurd h (toDec_ne_nil n)
  | cons d rest => exact ⟨d, rest, rfl, toDec_digits n d (by rw [h]; simp)⟩

/-- a size that `str()` can print is read back as itself -/
theorem parseSize_toDec (n : Nat) (hlen : (toDec n).length ≤ maxStrDigits) : parseSize? (toDec n) = some n := by
  obtain ⟨d, rest, he, hd⟩ := toDec_head n
  have hb : intBody? (toDec n) = some (toDec n) :=
    intBodyGo_digits false _ (toDec_digits n) (Or.inr (toDec_ne_nil n))
  have h43 : d ≠ 43 := by intro e; subst e; simp [isDigit] at hd
  have h45 : d ≠ 45 := by intro e; subst e; simp [isDigit] at hd
  unfold parseSize?
  rw [he]
  split
  · rename_i heq; cases heq; exact absurd rfl h43
  · rename_i heq; cases heq; exact absurd rfl h45
  · rw [← he, hb]
    have : ¬ (toDec n).length > maxStrDigits := by omega
    simp [this, digitsVal_toDec]

-- timestamps ---------------------------------------------------------------------

theorem breakAt_split (p : Nat → Bool) (ds rest : Str) (c : Nat)
    (hds : ∀ d ∈ ds, p d = false) (hc : p c = true) :
    breakAt p (ds ++ c :: rest) = some (ds, rest) := by
  induction ds with
  | nil => simp [breakAt, hc]
  | cons d ds ih =>
    have hd := hds d (by simp)
    simp only [List.cons_append, breakAt, hd, Bool.false_eq_true, if_false]
    rw [ih (fun x hx => hds x (by simp [hx]))]
    rfl

theorem pad2_mem (n : Nat) (hn : n < 100) : ∀ d ∈ pad2 n, 48 ≤ d ∧ d ≤ 57 := by
  intro d hd; simp [pad2] at hd; rcases hd with hd | hd <;> subst hd <;> omega

theorem pad4_mem (n : Nat) (hn : n < 10000) : ∀ d ∈ pad4 n, 48 ≤ d ∧ d ≤ 57 := by
  intro d hd; simp [pad4] at hd; rcases hd with hd | hd | hd | hd <;> subst hd <;> omega

theorem digitsVal_pad2 (n : Nat) (_hn : n < 100) : digitsVal (pad2 n) = n := by
  simp [digitsVal, pad2]; omega

theorem digitsVal_pad4 (n : Nat) (hn : n < 10000) : digitsVal (pad4 n) = n := by
  simp [digitsVal, pad4]; omega

theorem field12_pad2 (lo hi n : Nat) (hn : n < 100) (h1 : lo ≤ n) (h2 : n ≤ hi) :
    field12? lo hi (pad2 n) = some n := by
  have hd : (pad2 n).all isDigit = true := by
    simp only [List.all_eq_true]
    intro d hd; have := pad2_mem n hn d hd; simp [isDigit]; omega
  unfold field12?
  simp only [hd, digitsVal_pad2 n hn]
  simp [pad2, h1, h2]

theorem daysInMonth_le (y m : Nat) : daysInMonth y m ≤ 31 := by
  unfold daysInMonth; repeat' split
  all_goals omega

/-- a valid whole-second timestamp is read back as itself -/
theorem parseTs_fmtTs (t : Ts) (hv : t.valid = true) : parseTs? (fmtTs t) = some t := by
  obtain ⟨y, mo, d, h, mi, s⟩ := t
  simp only [Ts.valid, Bool.and_eq_true, decide_eq_true_eq] at hv
  obtain ⟨⟨⟨⟨⟨⟨⟨⟨hy1, hy2⟩, hm1⟩, hm2⟩, hd1⟩, hd2⟩, hh⟩, hmi⟩, hs⟩ := hv
  have hd3 := daysInMonth_le y mo
  have e1 := breakAt_split isDash (pad4 y) (pad2 mo ++ 45 :: (pad2 d ++ 84 :: (pad2 h ++ 58 :: (pad2 mi ++ 58 :: (pad2 s ++ [90]))))) 45
    (by intro x hx; have := pad4_mem y (by omega) x hx; simp [isDash]; omega) (by decide)
  have e2 := breakAt_split isDash (pad2 mo) (pad2 d ++ 84 :: (pad2 h ++ 58 :: (pad2 mi ++ 58 :: (pad2 s ++ [90])))) 45
    (by intro x hx; have := pad2_mem mo (by omega) x hx; simp [isDash]; omega) (by decide)
  have e3 := breakAt_split isTee (pad2 d) (pad2 h ++ 58 :: (pad2 mi ++ 58 :: (pad2 s ++ [90]))) 84
    (by intro x hx; have := pad2_mem d (by omega) x hx; simp [isTee]; omega) (by decide)
  have e4 := breakAt_split isColon (pad2 h) (pad2 mi ++ 58 :: (pad2 s ++ [90])) 58
    (by intro x hx; have := pad2_mem h (by omega) x hx; simp [isColon]; omega) (by decide)
  have e5 := breakAt_split isColon (pad2 mi) (pad2 s ++ [90]) 58
    (by intro x hx; have := pad2_mem mi (by omega) x hx; simp [isColon]; omega) (by decide)
  have e6 := breakAt_split isZed (pad2 s) [] 90
    (by intro x hx; have := pad2_mem s (by omega) x hx; simp [isZed]; omega) (by decide)
  have hy4 : ((pad4 y).length == 4 && (pad4 y).all isDigit) = true := by
    simp only [Bool.and_eq_true, List.all_eq_true]
    refine ⟨by simp [pad4], ?_⟩
    intro x hx; have := pad4_mem y (by omega) x hx; simp [isDigit]; omega
  have hvalid : (Ts.mk y mo d h mi s).valid = true := by
    simp [Ts.valid, hy1, hy2, hm1, hm2, hd1, hd2, hh, hmi, hs]
  unfold parseTs? fmtTs
  simp only [List.append_assoc, List.cons_append, e1, e2, e3, e4, e5, e6, hy4,
    field12_pad2 1 12 mo (by omega) hm1 hm2, field12_pad2 1 31 d (by omega) hd1 (by omega),
    field12_pad2 0 23 h (by omega) (by omega) (by omega), field12_pad2 0 59 mi (by omega) (by omega) (by omega),
    field12_pad2 0 61 s (by omega) (by omega) (by omega), digitsVal_pad4 y (by omega), hvalid]
  simp

end Gemato
