import Gemato.Model.Basic
import Gemato.Model.Escape
import Gemato.Model.Entry
import Gemato.Model.ManifestText
